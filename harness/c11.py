"""C11 - decompiled expressions describe exactly what the gates do.

Always-on search on the real code: circuits with classical runs (X/CX/CCX/MCX, also I and
MCtrl(X)) interleaved with non-classical gates and barriers at every boundary position, all gate
strings up to a length over a small alphabet on 3 qubits, random circuits.  The real
`Decompiler().decompile` is judged by an oracle written here from the property text alone
(own run splitter + own classical simulator + own expression evaluator `bexp.eval_json`):
sections == maximal classical runs, index range starts at the run's first gate and ends after
its last gate (only barriers may follow inside the range), gate list exact, every qubit's
expression (identity when none is reported) equals the simulated final value on every basis
state.  Correspondence: the same circuits through the Lean model (QV.Model.Decompiler) with the
active quirks: error text / index ranges / gate lists exact, expressions by truth table.

Gate OBJECTS shared between positions: an applied gate is a tuple (gate object, wires, param) and gate objects
compare by identity, so two positions hold equal tuples exactly when the same object sits on the same wires
(`qc += sub` twice, append_circuit twice, `qc += qc`).  `sharing_cases` / `random_shared_cases` build such circuits
gate by gate (equal JSON id > 0 = one object, harness/circ.py build_qc) and through the real composition API
(`circ.build_api`, recipes), `wide_cases` / `random_wide_cases` circuits on 10..16 qubits (q10 sorts before q2 as
text) and circuits whose qubits carry user-chosen names (the decompiler names qubits q{index} whatever they are
called).  Wide circuits are judged on every assignment of the qubits a section involves (wires of its gates, keys
and symbols of its expressions; more than 10 of them: a fixed sample), the others 0.
"""
from __future__ import annotations

import itertools
import json
import random

from . import bexp, circ
from .common import Ctx, Result

LEVEL = "proof"

QUIRK_I = "identityGateRaises"
QUIRK_M = "mctrlXSplits"


# ------------------------------------------------------------------ gates as JSON

def G(c, w, n=0, g="", p=None):
    return {"c": c, "n": n, "g": g, "w": list(w), "p": p, "id": 0}


def gkey(d):
    return (d["c"], d["n"] if d["c"] in ("MCX", "MCtrl") else 0, d["g"] if d["c"] == "MCtrl" else "", tuple(d["w"]), d.get("p"))


def kind(d):
    """the property's classification, independent of the code: 'cl' classical reversible
    (identity, X, CX, CCX, multi-controlled X), 'nop' barrier / no-op, 'sep' anything else"""
    c = d["c"]
    if c in ("I", "X", "CX", "CCX", "MCX"):
        return "cl"
    if c == "MCtrl" and d["g"] == "X":
        return "cl"
    if c in ("Barrier", "NopGate"):
        return "nop"
    return "sep"


def simulate(run, state):
    s = list(state)
    for d in run:
        if d["c"] == "I":
            continue
        w = d["w"]
        if all(s[i] for i in w[:-1]):
            s[w[-1]] = not s[w[-1]]
    return s


def expected_runs(gates):
    """maximal runs of classical gates (nops ignored): (first, last, next_sep_or_len, [gates])"""
    runs, cur = [], None
    for i, d in enumerate(gates):
        k = kind(d)
        if k == "cl":
            if cur is None:
                cur = [i, i, None, []]
            cur[1] = i
            cur[3].append(d)
        elif k == "sep":
            if cur is not None:
                cur[2] = i
                runs.append(cur)
                cur = None
    if cur is not None:
        cur[2] = len(gates)
        runs.append(cur)
    return runs


# ------------------------------------------------------------------ the real code

def code_decompile(n, gates, opts=None):
    """run the real decompiler on a real circuit: built gate by gate (equal id > 0 = the same gate object,
    `names` = user-chosen qubit names) or, when the case carries a recipe, through the library's own
    composition API (qc += sub twice, append_circuit, repeat, ...)"""
    from qlasskit.decompiler import Decompiler

    opts = opts or {}
    if opts.get("recipe"):
        qc = circ.build_api(opts["recipe"])
    else:
        qc = circ.build_qc(n, gates, names=opts.get("names"))
    try:
        res = Decompiler().decompile(qc)
    except Exception as e:  # noqa
        return {"error": str(e), "etype": type(e).__name__}
    secs = []
    for s in res:
        exps = []
        for k, e in s.expressions:
            exps.append([getattr(k, "name", repr(k)), bexp.to_json(e)])
        secs.append({"start": s.index[0], "stop": s.index[1],
                     "gates": [circ.gate_to_json(g, w, p) for g, w, p in s.gates], "exps": exps})
    return {"sections": secs}


# ------------------------------------------------------------------ the oracle

FULL = 6        # up to this many qubits a section is judged on all 2^n basis states of the circuit
EXH_BITS = 10   # above: on every assignment of the qubits the section involves, when these are at most so many


def involved(n, gates, exps):
    """the qubits a section can depend on or change: wires of its gates, keys and symbols of its expressions
    (all qubits for small circuits)"""
    if n <= FULL:
        return list(range(n))
    used = {i for d in gates for i in d["w"]}
    for k, e in exps:
        for nm in [k] + list(bexp.syms_json(e)):
            if nm[:1] == "q" and nm[1:].isdigit() and int(nm[1:]) < n:
                used.add(int(nm[1:]))
    return sorted(used)


def states_over(n, used):
    """basis states of the n-qubit circuit over the qubits `used` (the others 0): all of them, or - more than
    EXH_BITS qubits - 0..0, 1..1, every state of weight 1 / co-weight 1 and 300 fixed pseudo-random ones"""
    m = len(used)
    if m <= EXH_BITS:
        ks = range(2 ** m)
    else:
        r = random.Random(f"{n}:{used}")
        ks = [0, 2 ** m - 1] + [1 << i for i in range(m)] + [(2 ** m - 1) ^ (1 << i) for i in range(m)] + \
             [r.getrandbits(m) for _ in range(300)]
    for k in ks:
        st = [False] * n
        for b, i in enumerate(used):
            st[i] = bool((k >> b) & 1)
        yield st


def exps_table(n, exps, used=None):
    """truth table of the per-qubit functions (identity where no expression) of the qubits `used` (default: all)
    on states_over(n, used), or an error string"""
    if used is None:
        used = list(range(n))
    names = [f"q{i}" for i in range(n)]
    d = {}
    for k, e in exps:
        if k in d:
            return f"two expressions for {k}"
        if k not in names:
            return f"expression for unknown qubit {k}"
        d[k] = e
    for k in d:
        if int(k[1:]) not in used:
            return f"expression for {k}, which the section does not involve"
    es = [d.get(names[i], ["sym", names[i]]) for i in used]
    for e in es:
        for s in bexp.syms_json(e):
            if s not in names:
                return f"unknown symbol {s}"
    out = []
    for st in states_over(n, used):
        env = {names[i]: st[i] for i in range(n)}
        for e in es:
            out.append("1" if bexp.eval_json(e, env) else "0")
    return "".join(out)


def run_table(n, run, used=None):
    if used is None:
        used = list(range(n))
    out = []
    for st in states_over(n, used):
        fin = simulate(run, st)
        out.append("".join("1" if fin[i] else "0" for i in used))
    return "".join(out)


def judge(n, gates, out):
    """None if `out` (the code's observable result) satisfies the property on this circuit,
    else (what, expected)"""
    runs = expected_runs(gates)
    exp_ranges = [(r[0], r[1] + 1) for r in runs]
    if "error" in out:
        return ("decompile raised: " + out["error"], dict(ranges=exp_ranges))
    secs = out["sections"]
    if len(secs) != len(runs):
        return (f"{len(secs)} sections reported for {len(runs)} maximal classical runs", dict(ranges=exp_ranges))
    for s, (first, last, nxt, rg) in zip(secs, runs):
        if s["start"] != first or not (last < s["stop"] <= nxt):
            return (f"section range {(s['start'], s['stop'])} does not cover exactly the run at {first}..{last}",
                    dict(ranges=exp_ranges))
        if [gkey(d) for d in s["gates"]] != [gkey(d) for d in rg]:
            return ("section gate list is not the run's gate list", dict(gates=rg))
        used = involved(n, rg, s["exps"])
        tab = exps_table(n, s["exps"], used)
        want = run_table(n, rg, used)
        if tab != want:
            return (f"expressions of section {(s['start'], s['stop'])} do not give the gates' action on every basis state",
                    dict(table=want, got=tab, qubits=used))
    return None


# ------------------------------------------------------------------ generators

def alphabet(extra=False):
    a = [G("X", [0]), G("CX", [0, 1]), G("CX", [1, 2]), G("CCX", [0, 1, 2]), G("MCX", [2, 0, 1], n=2),
         G("H", [1]), G("Barrier", []), G("Swap", [0, 2]), G("T", [0])]
    if extra:
        a += [G("I", [1]), G("MCtrl", [0, 1, 2], n=2, g="X")]
    return a


SEPS = [G("H", [0]), G("Z", [1]), G("S", [0]), G("T", [2]), G("Y", [1]), G("P", [0], p="0.5"), G("Swap", [0, 1]),
        G("CZ", [0, 2]), G("CP", [1, 2], p="0.25"), G("MCtrl", [0, 1, 2], n=2, g="Z"), G("MCtrl", [0, 1], n=1, g="H")]
RUNS = [
    [G("X", [0])],
    [G("CX", [0, 1])],
    [G("CCX", [0, 1, 2])],
    [G("MCX", [0, 1, 2], n=2)],
    [G("MCX", [1], n=0)],
    [G("MCX", [2, 1], n=1)],
    [G("X", [0]), G("CX", [0, 1]), G("CCX", [0, 1, 2])],
    [G("X", [1]), G("X", [1])],
    [G("CX", [0, 1]), G("CX", [1, 0]), G("CX", [0, 1])],
    [G("CCX", [2, 1, 0]), G("X", [2]), G("MCX", [0, 2, 1], n=2), G("CX", [1, 2])],
]
QUIRKY = [G("I", [0]), G("I", [2]), G("MCtrl", [0, 1, 2], n=2, g="X"), G("MCtrl", [1, 0], n=1, g="X"),
          G("MCtrl", [2], n=0, g="X")]


def boundary_cases():
    """classical runs around one boundary gate, barriers at every boundary position"""
    B = G("Barrier", [])
    N = G("NopGate", [])
    out = []
    # single gates and single runs, with leading / trailing barriers
    for r in RUNS + [[g] for g in SEPS + QUIRKY] + [[]]:
        for lead in (0, 1, 2):
            for trail in (0, 1, 2, 3):
                out.append((3, [B] * lead + r + [B] * trail))
    # run sep run
    for ri, r1 in enumerate(RUNS):
        r2 = RUNS[(ri + 3) % len(RUNS)]
        for sep in SEPS + QUIRKY:
            for lead in (0, 1):
                for b1 in (0, 1, 2):
                    for b2 in (0, 1):
                        for trail in (0, 1, 2):
                            out.append((3, [B] * lead + r1 + [B] * b1 + [sep] + [B] * b2 + r2 + [B] * trail))
    # barriers inside runs, NopGate objects, two separators in a row, separator first / last
    for r in RUNS:
        if len(r) >= 2:
            for pos in range(1, len(r)):
                out.append((3, r[:pos] + [B] + r[pos:]))
                out.append((3, r[:pos] + [B, N] + r[pos:] + [N, SEPS[0]]))
        out.append((3, [SEPS[0], SEPS[1]] + r + [SEPS[2], SEPS[3]]))
        out.append((3, [SEPS[0], B] + r + [N, SEPS[2]] + r))
        out.append((3, r + [N]))
        out.append((3, r + [N, N, SEPS[4]] + r + [B, N]))
    return out


def strings_cases(alpha, maxlen):
    for L in range(0, maxlen + 1):
        for t in itertools.product(range(len(alpha)), repeat=L):
            yield (3, [alpha[i] for i in t])


def random_cases(rng, count):
    kinds = ["X", "CX", "CCX", "MCX", "X", "CX", "CCX", "MCX", "H", "Z", "Y", "S", "T", "P", "CP", "CZ", "Swap",
             "MCtrlZ", "Barrier", "Barrier"]
    kinds_q = kinds + ["MCtrlX", "I"]
    for k in range(count):
        n = rng.randint(1, 5)
        L = rng.randint(1, 14)
        ks = kinds_q if k % 5 == 0 else kinds
        gs = []
        for _ in range(L):
            if rng.random() < 0.04:
                gs.append(G("NopGate", []))
            else:
                gs.append(circ.rand_gate(rng, n, kinds=ks))
        yield (n, gs)


# ---------------------------------------------------------------- shared gate objects, wide circuits

api_case = circ.api_case


def sharing_cases():
    """the same gate OBJECT at several positions / in several sections (what `qc += sub` twice produces): on the
    same wires (equal applied-gate tuples), on other wires, first / inner / last gate of a section, shared
    separators and barriers; gate by gate (ids) and through the real API"""
    B = G("Barrier", [])
    out = []
    Hs, Ts, Bs, Ns = dict(SEPS[0], id=90), dict(SEPS[3], id=91), dict(B, id=92), dict(G("NopGate", []), id=93)
    runs = RUNS + [[G("I", [0]), G("X", [1])], [G("MCtrl", [0, 1, 2], n=2, g="X"), G("CX", [2, 0])]]
    for ri, r in enumerate(runs):
        s = circ.with_ids(r, 1)
        t = circ.with_ids(runs[(ri + 3) % len(runs)], 20)
        rot = [dict(d, w=[(i + 1) % 3 for i in d["w"]]) for d in s]
        for sep in (SEPS[0], SEPS[6], SEPS[9]):
            out.append((3, s + [sep] + s))
            out.append((3, s + [sep] + s + [sep] + s))
            out.append((3, t + [sep] + s + [sep] + t + [B, sep] + s))
            out.append((3, [sep] + s + [B, sep, B] + s + [B]))
        out.append((3, s + [Hs] + s[:1] + t))              # only the first object of the later section is an old one
        out.append((3, t + [Hs] + t[:-1] + s[-1:] + [Ts] + s))    # the last gate of a section occurs again later
        out.append((3, s + [Hs] + s[1:] + [Hs] + s[-1:] + [Hs] + s))
        out.append((3, s + [Hs] + rot))                    # same objects, other wires
        out.append((3, rot + [Hs] + s + [Ts] + rot))
        out.append((3, [Hs] + s + [Hs] + t + [Hs] + s))    # one separator object at three positions
        out.append((3, s + [Bs, Hs, Bs] + s + [Bs]))       # one barrier object at three positions
        out.append((3, s + [Ns, Ts, Ns, Bs] + s + [Ns, Hs] + t))
        out.append((3, s + s + [Hs] + s))
        # same first objects, same length, other last gate
        out.append((3, s + [Hs] + s[:-1] + [G("X", [2])] + [Hs] + s[:-1] + [G("X", [0])]))
        out.append((3, s[:-1] + [G("X", [1])] + [Hs] + s))                  # twice inside one section, then again
        out.append((3, s + [B] + s + [Hs, Hs] + s + [B]))
        out.append((5, s + [G("H", [4])] + t + [G("H", [3])] + s))
        # through the API
        sub, sub2 = dict(n=3, gates=r), dict(n=3, gates=runs[(ri + 3) % len(runs)])
        mixed = dict(n=3, gates=[SEPS[0]] + r + [SEPS[3], B] + sub2["gates"])
        gate = lambda d: dict(op="gate", g=d)
        iadd = lambda k: dict(op="iadd", sub=k)
        app = lambda k, q: dict(op="append_circuit", sub=k, qubits=q)
        subs = [sub, sub2, mixed]
        for steps, n in [
            ([iadd(0), gate(SEPS[0]), iadd(0)], 3),
            ([iadd(0), gate(SEPS[6]), iadd(0), gate(SEPS[9]), iadd(0)], 3),
            ([iadd(1), gate(SEPS[0]), iadd(0), gate(B), gate(SEPS[1]), iadd(1), gate(SEPS[2]), iadd(0)], 3),
            ([app(0, [1, 2, 3]), gate(G("H", [4])), app(0, [1, 2, 3])], 5),
            ([app(0, [0, 1, 2]), gate(G("H", [4])), app(0, [2, 3, 4]), gate(G("Z", [0])), app(0, [0, 1, 2])], 5),
            ([app(0, [4, 2, 0]), gate(G("T", [1])), app(1, [4, 2, 0]), gate(G("T", [1])), app(0, [4, 2, 0])], 5),
            ([iadd(0), gate(SEPS[0]), dict(op="iadd_self")], 3),
            ([gate(SEPS[4]), iadd(0), dict(op="iadd_self"), dict(op="iadd_self")], 3),
            ([gate(SEPS[0]), iadd(0), dict(op="repeat", times=2)], 3),
            ([iadd(0), gate(B), gate(SEPS[5]), dict(op="repeat", times=3)], 3),
            ([iadd(0), gate(SEPS[0]), dict(op="add", sub=0), gate(SEPS[1]), iadd(0)], 3),
            ([iadd(2), iadd(2)], 3),
            ([iadd(2), gate(B), iadd(2), gate(SEPS[7]), iadd(0)], 3),
        ]:
            out.append(api_case(dict(n=n, subs=subs, steps=steps)))
        names = circ.name_schemes(5)
        for nm in ("letters", "reversed-q", "shifted-q"):
            out.append(api_case(dict(n=5, names=names[nm], subs=subs,
                                     steps=[app(0, [1, 2, 3]), gate(G("H", [4])), app(0, [1, 2, 3]), gate(G("H", [0])), app(1, [3, 4, 0])])))
    return out


WIDE = (10, 11, 12, 16)


def remap(gates, m):
    return [dict(d, w=[m[i] for i in d["w"]]) for d in gates]


def wide_triples(n):
    return [(0, 1, 2), (n - 1, 2, n - 2), (1, n - 1, 0), (2, 3, n - 1), (n - 2, n - 1, n - 3), (8, 1, n - 1)]


def wide_cases():
    """circuits on 10, 11, 12, 16 qubits: qubit names q10.. sort before q2 as text; user-chosen names"""
    B = G("Barrier", [])
    out = []
    for n in WIDE:
        names = circ.name_schemes(n)
        trs = wide_triples(n)
        for ri, r in enumerate(RUNS):
            for ti, m in enumerate(trs):
                m2 = trs[(ti + 1) % len(trs)]
                sep = remap([SEPS[(ri + ti) % len(SEPS)]], m2)
                out.append((n, remap(r, m)))
                out.append((n, remap(r, m) + sep + remap(RUNS[(ri + 3) % len(RUNS)], m2) + [B]))
            m = trs[ri % len(trs)]
            s = circ.with_ids(remap(r, m), 1)
            out.append((n, s + [G("H", [n - 1])] + s + [G("Swap", [2, n - 1])] + s))
            for nm in ("letters", "reversed-q", "shifted-q", "padded", "words"):
                out.append((n, remap(r, m) + [G("H", [n - 1])] + remap(r, trs[(ri + 2) % len(trs)]), dict(names=names[nm])))
        # one gate on every qubit; a multi-controlled X over many qubits; a run over all qubits
        out.append((n, [G("X", [i]) for i in range(n)]))
        out.append((n, [G("X", [i]) for i in reversed(range(n))] + [G("H", [n - 1])] + [G("CX", [i, (i + 1) % n]) for i in range(n)]))
        k = min(n - 1, 9)
        w = list(range(n - 1, n - 2 - k, -1))
        out.append((n, [G("MCX", w, n=k), G("X", [w[0]]), G("MCtrl", w[::-1], n=k, g="X")]))
        out.append((n, [G("CX", [i, i + 1]) for i in range(n - 1)] + [G("Z", [n - 1])] + [G("CCX", [i + 2, i, i + 1]) for i in range(n - 2)]))
    return out


def random_shared_cases(rng, count):
    """random sequences over a small pool of applied gates whose gate objects are reused (same or other wires)"""
    for k in range(count):
        n = rng.randint(2, 5)
        pool = []
        for i in range(rng.randint(2, 5)):
            d = circ.rand_gate(rng, n, kinds=["X", "CX", "CCX", "MCX", "X", "CX", "H", "Swap", "T", "CZ", "Barrier", "MCtrlX", "I"])
            pool.append(dict(d, id=i + 1))
        gs = []
        for _ in range(rng.randint(2, 14)):
            d = dict(rng.choice(pool))
            x = rng.random()
            if x < 0.15 and d["w"]:
                d["w"] = rng.sample(range(n), len(d["w"]))     # the same object on other wires
            elif x < 0.25:
                d["id"] = 0                                     # an equal gate, but a new object
            gs.append(d)
        yield (n, gs)


def random_api_cases(rng, count):
    for k in range(count):
        n = rng.randint(3, 6)
        subs = []
        for _ in range(rng.randint(1, 3)):
            m = rng.randint(1, min(n, 4))
            subs.append(dict(n=m, gates=[circ.rand_gate(rng, m, kinds=["X", "CX", "CCX", "MCX", "X", "CX", "H", "T", "Barrier", "Swap"])
                                         for _ in range(rng.randint(1, 5))]))
        steps = []
        for _ in range(rng.randint(2, 6)):
            x = rng.random()
            j = rng.randrange(len(subs))
            if x < 0.35:
                steps.append(dict(op="append_circuit", sub=j, qubits=rng.sample(range(n), subs[j]["n"])))
            elif x < 0.55 and subs[j]["n"] <= n:
                steps.append(dict(op="iadd", sub=j))
            elif x < 0.62:
                steps.append(dict(op="iadd_self"))
            elif x < 0.68:
                steps.append(dict(op="repeat", times=rng.randint(1, 3)))
            elif x < 0.74:
                steps.append(dict(op="add", sub=j))
            else:
                steps.append(dict(op="gate", g=circ.rand_gate(rng, n, kinds=["H", "Z", "S", "Swap", "CZ", "X", "CX", "Barrier"])))
        names = rng.choice(list(circ.name_schemes(n).values()))
        c = api_case(dict(n=n, names=names, subs=subs, steps=steps))
        if len(c[1]) <= 60:
            yield c


def random_wide_cases(rng, count):
    kinds = ["X", "CX", "CCX", "MCX", "X", "CX", "CCX", "H", "Z", "S", "CZ", "Swap", "MCtrlZ", "MCtrlX", "Barrier", "I"]
    for k in range(count):
        n = rng.choice([10, 11, 12, 13, 16])
        gs = [circ.rand_gate(rng, n, kinds=kinds) for _ in range(rng.randint(1, 12))]
        if k % 3 == 0:
            # gates concentrated on the qubits whose names sort differently
            hot = sorted({0, 1, 2, 3, 9, n - 1, n - 2})
            gs = [dict(d, w=[hot[i % len(hot)] for i in rng.sample(range(len(hot)), len(d["w"]))]) for d in gs]
        if k % 4 == 1:
            gs = [dict(d, id=1 + rng.randrange(3)) if d["c"] == "X" else d for d in gs]
        names = rng.choice(list(circ.name_schemes(n).values())) if k % 2 else None
        yield (n, gs, dict(names=names))


# ------------------------------------------------------------------ comparison with the model

def canon_out(n, out):
    """exact part + functional part of a result (code or model)"""
    if "error" in out:
        return {"error": out["error"]}
    secs = []
    for s in out["sections"]:
        used = involved(n, s["gates"], s["exps"])
        d = dict(range=[s["start"], s["stop"]], gates=[list(map(str, gkey(d))) for d in s["gates"]],
                 table=exps_table(n, s["exps"], used))
        if n > FULL:
            d["qubits"] = used
        secs.append(d)
    return {"sections": secs}


def has_I(gates):
    return any(d["c"] == "I" for d in gates)


def has_mctrl_x(gates):
    return any(d["c"] == "MCtrl" and d["g"] == "X" for d in gates)


def active_quirks(ctx):
    return sorted({f["quirk"] for f in ctx.findings if f.get("status", "open") == "open" and f.get("_active") and f.get("quirk")})


def check_batch(ctx, res, cases, bucket):
    """run code + oracle + model on a batch of (n, gates)"""
    quirks = active_quirks(ctx)
    fid = {f["quirk"]: f["id"] for f in ctx.findings if f.get("status", "open") == "open" and f.get("_active")}
    cases = [c if len(c) == 3 else (c[0], c[1], None) for c in cases]
    outs = []
    for n, gates, opts in cases:
        outs.append(code_decompile(n, gates, opts))
    reqs = []
    for n, gates, opts in cases:
        reqs.append(dict(op="c11.decompile", n=n, gates=gates, quirks=quirks))
        reqs.append(dict(op="c11.decompile", n=n, gates=gates, quirks=[]))
    replies = ctx.model(reqs)
    for idx, ((n, gates, opts), out) in enumerate(zip(cases, outs)):
        case = dict(n=n, gates=[[d["c"] + (str(d["n"]) if d["c"] in ("MCX", "MCtrl") else "") + d["g"], d["w"]] + ([d["p"]] if d["p"] else []) for d in gates],
                    gates_json=gates)
        nshared = circ.shared_positions(gates)
        if nshared:
            case["same_gate_object_as_an_earlier_position"] = [i for i, d in enumerate(gates) if d.get("id") and
                                                               any(e.get("id") == d["id"] for e in gates[:i])]
            res.extra["cases_with_shared_gate_objects"] = res.extra.get("cases_with_shared_gate_objects", 0) + 1
        if n >= 10:
            res.extra["cases_on_10_or_more_qubits"] = res.extra.get("cases_on_10_or_more_qubits", 0) + 1
        if opts:
            if opts.get("names"):
                case["names"] = opts["names"]
            if opts.get("recipe"):
                case["recipe"] = opts["recipe"]
                res.extra["cases_built_through_the_api"] = res.extra.get("cases_built_through_the_api", 0) + 1
            if opts.get("api_mismatch"):
                res.disagree(case, "the circuit the library's composition API builds is not the gate list the recipe denotes",
                             code=opts["api_mismatch"])
        nontrivial = sum(1 for d in gates if kind(d) == "cl") >= 1 and len(gates) >= 2
        res.count({k: v for k, v in case.items() if k != "gates_json"} if (opts or nshared) else dict(n=n, gates=case["gates"]),
                  nontrivial=nontrivial, bucket=bucket)
        verdict = judge(n, gates, out)
        c_code = canon_out(n, out)
        m_quirk = m_none = None
        if replies is not None:
            rq, rn = replies[2 * idx], replies[2 * idx + 1]
            if "driver_error" in rq or "driver_error" in rn:
                res.disagree(case, "model driver error", code=c_code, model=rq)
            else:
                m_quirk, m_none = canon_out(n, rq), canon_out(n, rn)
                if m_quirk != c_code:
                    res.disagree(case, "model (with the active quirks) and code differ", code=c_code, model=m_quirk)
                # the repaired model must satisfy the property (it is what the theorems are about)
                v_none = judge(n, gates, rn)
                if v_none is not None:
                    res.disagree(case, "the repaired model violates the oracle: " + v_none[0], model=m_none)
        if verdict is None:
            continue
        what, expected = verdict
        # attribution: exact trigger + exact reproduction by the quirk model
        attributed = None
        if m_quirk is not None and m_quirk == c_code:
            if QUIRK_I in fid and has_I(gates) and c_code == {"error": "Gate not handled for decompilation: I"}:
                attributed = fid[QUIRK_I]
            elif QUIRK_M in fid and has_mctrl_x(gates) and not has_I(gates) and "sections" in c_code:
                attributed = fid[QUIRK_M]
        if attributed:
            res.known(attributed)
        else:
            res.violation(case, what, code=c_code, expected=expected)


def run(ctx: Ctx) -> Result:
    res = Result("C11")
    rng = ctx.rng
    res.rule = (
        "systematic: every run shape x every boundary gate x barriers (0..2) at every boundary position on 3 qubits; "
        "all gate strings of length <= L over a 9-letter alphabet (L=5 thorough, 3 quick) and over the 11-letter "
        "alphabet with I and MCtrl(X) (L=4 thorough, 2 quick); random circuits on 1..5 qubits, <=14 gates; "
        "circuits in which one gate object occurs at several positions / in several sections (built gate by gate and through "
        "qc += sub, append_circuit, qc += qc, repeat, +), every run shape on 10/11/12/16 qubits incl. user-chosen qubit "
        "names, random variants of both (wide circuits judged on all assignments of the qubits a section involves); "
        "case = (n, gate list); non-trivial = at least one classical gate and at least two gates"
    )
    check_batch(ctx, res, boundary_cases(), "boundary")
    check_batch(ctx, res, sharing_cases(), "shared-objects")
    check_batch(ctx, res, wide_cases(), "wide")
    check_batch(ctx, res, list(strings_cases(alphabet(), 5 if ctx.thorough else 3)), "strings9")
    check_batch(ctx, res, list(strings_cases(alphabet(True), 4 if ctx.thorough else 2)), "strings11")
    check_batch(ctx, res, list(random_cases(rng, 12000 if ctx.thorough else 1500)), "random")
    check_batch(ctx, res, list(random_shared_cases(rng, 3000 if ctx.thorough else 400)), "random-shared")
    check_batch(ctx, res, list(random_api_cases(rng, 1500 if ctx.thorough else 150)), "random-api")
    check_batch(ctx, res, list(random_wide_cases(rng, 1500 if ctx.thorough else 150)), "random-wide")
    res.exhaustive = True
    res.notes.append("gate strings over the fixed alphabets enumerated completely up to the stated length; "
                     "boundary patterns enumerated completely; random part sampled")
    res.assumptions.append("sympy's Not/And/Xor constructors preserve meaning (validated: every reported expression is "
                           "evaluated by harness/bexp.eval_json against the harness' own gate simulator)")
    res.assumptions.append("gate tuples are built by QCircuit.append (arity = n_qubits, distinct wires)")
    return res


def witness_fails(ctx: Ctx, f):
    w = f.get("witness", {})
    n, gates = w["n"], w["gates"]
    out = code_decompile(n, gates)
    return judge(n, gates, out) is not None


def replay(ctx: Ctx, payload):
    first = payload.get("first") or {}
    case = first.get("case", {})
    if "gates_json" not in case:
        print("no failing input in this replay file (tie-broken record)")
        return 2
    n, gates = case["n"], case["gates_json"]
    opts = dict(names=case.get("names"), recipe=case.get("recipe"))
    print("replaying", json.dumps(case.get("gates")), "on", n, "qubits" +
          (", built through the composition API" if opts["recipe"] else "") +
          (f", qubit names {opts['names']}" if opts["names"] else ""))
    if case.get("same_gate_object_as_an_earlier_position"):
        print("positions holding a gate object of an earlier position:", case["same_gate_object_as_an_earlier_position"])
    out = code_decompile(n, gates, opts)
    print("code:", json.dumps(canon_out(n, out)))
    v = judge(n, gates, out)
    print("oracle:", "property holds" if v is None else v[0])
    if v is not None:
        print("expected:", json.dumps(v[1]))
    return 0 if v is None else 1
