"""C11 - decompiled expressions describe exactly what the gates do.

Always-on search on the real code: circuits with classical runs (X/CX/CCX/MCX, also I and
MCtrl(X)) interleaved with non-classical gates and barriers at every boundary position, all gate
strings up to a length over a small alphabet on 3 qubits, random circuits.  The real
`Decompiler().decompile` is judged by an oracle written here from the property text alone
(own run splitter + own classical simulator + own expression evaluator `bexp.eval_json`):
sections == maximal classical runs, index range starts at the run's first gate and ends after
its last gate (only barriers may follow inside the range), gate list exact, every qubit's
expression (identity when none is reported) equals the simulated final value on every basis
state.  Correspondence: the same circuits through the Lean model (QV.Model.Decompiler) with the
active quirks: error text / index ranges / gate lists exact, expressions by truth table.
"""
from __future__ import annotations

import itertools
import json

from . import bexp, circ
from .common import Ctx, Result

LEVEL = "proof"

QUIRK_I = "identityGateRaises"
QUIRK_M = "mctrlXSplits"


# ------------------------------------------------------------------ gates as JSON

def G(c, w, n=0, g="", p=None):
    return {"c": c, "n": n, "g": g, "w": list(w), "p": p, "id": 0}


def gkey(d):
    return (d["c"], d["n"] if d["c"] in ("MCX", "MCtrl") else 0, d["g"] if d["c"] == "MCtrl" else "", tuple(d["w"]), d.get("p"))


def kind(d):
    """the property's classification, independent of the code: 'cl' classical reversible
    (identity, X, CX, CCX, multi-controlled X), 'nop' barrier / no-op, 'sep' anything else"""
    c = d["c"]
    if c in ("I", "X", "CX", "CCX", "MCX"):
        return "cl"
    if c == "MCtrl" and d["g"] == "X":
        return "cl"
    if c in ("Barrier", "NopGate"):
        return "nop"
    return "sep"


def simulate(run, state):
    s = list(state)
    for d in run:
        if d["c"] == "I":
            continue
        w = d["w"]
        if all(s[i] for i in w[:-1]):
            s[w[-1]] = not s[w[-1]]
    return s


def expected_runs(gates):
    """maximal runs of classical gates (nops ignored): (first, last, next_sep_or_len, [gates])"""
    runs, cur = [], None
    for i, d in enumerate(gates):
        k = kind(d)
        if k == "cl":
            if cur is None:
                cur = [i, i, None, []]
            cur[1] = i
            cur[3].append(d)
        elif k == "sep":
            if cur is not None:
                cur[2] = i
                runs.append(cur)
                cur = None
    if cur is not None:
        cur[2] = len(gates)
        runs.append(cur)
    return runs


# ------------------------------------------------------------------ the real code

def code_decompile(n, gates):
    from qlasskit.decompiler import Decompiler

    qc = circ.build_qc(n, gates)
    try:
        res = Decompiler().decompile(qc)
    except Exception as e:  # noqa
        return {"error": str(e), "etype": type(e).__name__}
    secs = []
    for s in res:
        exps = []
        for k, e in s.expressions:
            exps.append([getattr(k, "name", repr(k)), bexp.to_json(e)])
        secs.append({"start": s.index[0], "stop": s.index[1],
                     "gates": [circ.gate_to_json(g, w, p) for g, w, p in s.gates], "exps": exps})
    return {"sections": secs}


# ------------------------------------------------------------------ the oracle

def exps_table(n, exps):
    """truth table of the n per-qubit functions (identity where no expression), or an error string"""
    names = [f"q{i}" for i in range(n)]
    d = {}
    for k, e in exps:
        if k in d:
            return f"two expressions for {k}"
        if k not in names:
            return f"expression for unknown qubit {k}"
        d[k] = e
    es = [d.get(nm, ["sym", nm]) for nm in names]
    for e in es:
        for s in bexp.syms_json(e):
            if s not in names:
                return f"unknown symbol {s}"
    return bexp.truth_table(names, es)


def run_table(n, run):
    out = []
    for k in range(2 ** n):
        st = [bool((k >> i) & 1) for i in range(n)]
        fin = simulate(run, st)
        out.append("".join("1" if b else "0" for b in fin))
    return "".join(out)


def judge(n, gates, out):
    """None if `out` (the code's observable result) satisfies the property on this circuit,
    else (what, expected)"""
    runs = expected_runs(gates)
    exp_ranges = [(r[0], r[1] + 1) for r in runs]
    if "error" in out:
        return ("decompile raised: " + out["error"], dict(ranges=exp_ranges))
    secs = out["sections"]
    if len(secs) != len(runs):
        return (f"{len(secs)} sections reported for {len(runs)} maximal classical runs", dict(ranges=exp_ranges))
    for s, (first, last, nxt, rg) in zip(secs, runs):
        if s["start"] != first or not (last < s["stop"] <= nxt):
            return (f"section range {(s['start'], s['stop'])} does not cover exactly the run at {first}..{last}",
                    dict(ranges=exp_ranges))
        if [gkey(d) for d in s["gates"]] != [gkey(d) for d in rg]:
            return ("section gate list is not the run's gate list", dict(gates=rg))
        tab = exps_table(n, s["exps"])
        want = run_table(n, rg)
        if tab != want:
            return (f"expressions of section {(s['start'], s['stop'])} do not give the gates' action on every basis state",
                    dict(table=want, got=tab))
    return None


# ------------------------------------------------------------------ generators

def alphabet(extra=False):
    a = [G("X", [0]), G("CX", [0, 1]), G("CX", [1, 2]), G("CCX", [0, 1, 2]), G("MCX", [2, 0, 1], n=2),
         G("H", [1]), G("Barrier", []), G("Swap", [0, 2]), G("T", [0])]
    if extra:
        a += [G("I", [1]), G("MCtrl", [0, 1, 2], n=2, g="X")]
    return a


SEPS = [G("H", [0]), G("Z", [1]), G("S", [0]), G("T", [2]), G("Y", [1]), G("P", [0], p="0.5"), G("Swap", [0, 1]),
        G("CZ", [0, 2]), G("CP", [1, 2], p="0.25"), G("MCtrl", [0, 1, 2], n=2, g="Z"), G("MCtrl", [0, 1], n=1, g="H")]
RUNS = [
    [G("X", [0])],
    [G("CX", [0, 1])],
    [G("CCX", [0, 1, 2])],
    [G("MCX", [0, 1, 2], n=2)],
    [G("MCX", [1], n=0)],
    [G("MCX", [2, 1], n=1)],
    [G("X", [0]), G("CX", [0, 1]), G("CCX", [0, 1, 2])],
    [G("X", [1]), G("X", [1])],
    [G("CX", [0, 1]), G("CX", [1, 0]), G("CX", [0, 1])],
    [G("CCX", [2, 1, 0]), G("X", [2]), G("MCX", [0, 2, 1], n=2), G("CX", [1, 2])],
]
QUIRKY = [G("I", [0]), G("I", [2]), G("MCtrl", [0, 1, 2], n=2, g="X"), G("MCtrl", [1, 0], n=1, g="X"),
          G("MCtrl", [2], n=0, g="X")]


def boundary_cases():
    """classical runs around one boundary gate, barriers at every boundary position"""
    B = G("Barrier", [])
    N = G("NopGate", [])
    out = []
    # single gates and single runs, with leading / trailing barriers
    for r in RUNS + [[g] for g in SEPS + QUIRKY] + [[]]:
        for lead in (0, 1, 2):
            for trail in (0, 1, 2, 3):
                out.append((3, [B] * lead + r + [B] * trail))
    # run sep run
    for ri, r1 in enumerate(RUNS):
        r2 = RUNS[(ri + 3) % len(RUNS)]
        for sep in SEPS + QUIRKY:
            for lead in (0, 1):
                for b1 in (0, 1, 2):
                    for b2 in (0, 1):
                        for trail in (0, 1, 2):
                            out.append((3, [B] * lead + r1 + [B] * b1 + [sep] + [B] * b2 + r2 + [B] * trail))
    # barriers inside runs, NopGate objects, two separators in a row, separator first / last
    for r in RUNS:
        if len(r) >= 2:
            for pos in range(1, len(r)):
                out.append((3, r[:pos] + [B] + r[pos:]))
                out.append((3, r[:pos] + [B, N] + r[pos:] + [N, SEPS[0]]))
        out.append((3, [SEPS[0], SEPS[1]] + r + [SEPS[2], SEPS[3]]))
        out.append((3, [SEPS[0], B] + r + [N, SEPS[2]] + r))
        out.append((3, r + [N]))
        out.append((3, r + [N, N, SEPS[4]] + r + [B, N]))
    return out


def strings_cases(alpha, maxlen):
    for L in range(0, maxlen + 1):
        for t in itertools.product(range(len(alpha)), repeat=L):
            yield (3, [alpha[i] for i in t])


def random_cases(rng, count):
    kinds = ["X", "CX", "CCX", "MCX", "X", "CX", "CCX", "MCX", "H", "Z", "Y", "S", "T", "P", "CP", "CZ", "Swap",
             "MCtrlZ", "Barrier", "Barrier"]
    kinds_q = kinds + ["MCtrlX", "I"]
    for k in range(count):
        n = rng.randint(1, 5)
        L = rng.randint(1, 14)
        ks = kinds_q if k % 5 == 0 else kinds
        gs = []
        for _ in range(L):
            if rng.random() < 0.04:
                gs.append(G("NopGate", []))
            else:
                gs.append(circ.rand_gate(rng, n, kinds=ks))
        yield (n, gs)


# ------------------------------------------------------------------ comparison with the model

def canon_out(n, out):
    """exact part + functional part of a result (code or model)"""
    if "error" in out:
        return {"error": out["error"]}
    return {"sections": [dict(range=[s["start"], s["stop"]], gates=[list(map(str, gkey(d))) for d in s["gates"]],
                              table=exps_table(n, s["exps"])) for s in out["sections"]]}


def has_I(gates):
    return any(d["c"] == "I" for d in gates)


def has_mctrl_x(gates):
    return any(d["c"] == "MCtrl" and d["g"] == "X" for d in gates)


def active_quirks(ctx):
    return sorted({f["quirk"] for f in ctx.findings if f.get("status", "open") == "open" and f.get("_active") and f.get("quirk")})


def check_batch(ctx, res, cases, bucket):
    """run code + oracle + model on a batch of (n, gates)"""
    quirks = active_quirks(ctx)
    fid = {f["quirk"]: f["id"] for f in ctx.findings if f.get("status", "open") == "open" and f.get("_active")}
    outs = []
    for n, gates in cases:
        outs.append(code_decompile(n, gates))
    reqs = []
    for n, gates in cases:
        reqs.append(dict(op="c11.decompile", n=n, gates=gates, quirks=quirks))
        reqs.append(dict(op="c11.decompile", n=n, gates=gates, quirks=[]))
    replies = ctx.model(reqs)
    for idx, ((n, gates), out) in enumerate(zip(cases, outs)):
        case = dict(n=n, gates=[[d["c"] + (str(d["n"]) if d["c"] in ("MCX", "MCtrl") else "") + d["g"], d["w"]] + ([d["p"]] if d["p"] else []) for d in gates],
                    gates_json=gates)
        nontrivial = sum(1 for d in gates if kind(d) == "cl") >= 1 and len(gates) >= 2
        res.count(dict(n=n, gates=case["gates"]), nontrivial=nontrivial, bucket=bucket)
        verdict = judge(n, gates, out)
        c_code = canon_out(n, out)
        m_quirk = m_none = None
        if replies is not None:
            rq, rn = replies[2 * idx], replies[2 * idx + 1]
            if "driver_error" in rq or "driver_error" in rn:
                res.disagree(case, "model driver error", code=c_code, model=rq)
            else:
                m_quirk, m_none = canon_out(n, rq), canon_out(n, rn)
                if m_quirk != c_code:
                    res.disagree(case, "model (with the active quirks) and code differ", code=c_code, model=m_quirk)
                # the repaired model must satisfy the property (it is what the theorems are about)
                v_none = judge(n, gates, rn)
                if v_none is not None:
                    res.disagree(case, "the repaired model violates the oracle: " + v_none[0], model=m_none)
        if verdict is None:
            continue
        what, expected = verdict
        # attribution: exact trigger + exact reproduction by the quirk model
        attributed = None
        if m_quirk is not None and m_quirk == c_code:
            if QUIRK_I in fid and has_I(gates) and c_code == {"error": "Gate not handled for decompilation: I"}:
                attributed = fid[QUIRK_I]
            elif QUIRK_M in fid and has_mctrl_x(gates) and not has_I(gates) and "sections" in c_code:
                attributed = fid[QUIRK_M]
        if attributed:
            res.known(attributed)
        else:
            res.violation(case, what, code=c_code, expected=expected)


def run(ctx: Ctx) -> Result:
    res = Result("C11")
    rng = ctx.rng
    res.rule = (
        "systematic: every run shape x every boundary gate x barriers (0..2) at every boundary position on 3 qubits; "
        "all gate strings of length <= L over a 9-letter alphabet (L=5 thorough, 3 quick) and over the 11-letter "
        "alphabet with I and MCtrl(X) (L=4 thorough, 2 quick); random circuits on 1..5 qubits, <=14 gates; "
        "case = (n, gate list); non-trivial = at least one classical gate and at least two gates"
    )
    check_batch(ctx, res, boundary_cases(), "boundary")
    check_batch(ctx, res, list(strings_cases(alphabet(), 5 if ctx.thorough else 3)), "strings9")
    check_batch(ctx, res, list(strings_cases(alphabet(True), 4 if ctx.thorough else 2)), "strings11")
    check_batch(ctx, res, list(random_cases(rng, 12000 if ctx.thorough else 1500)), "random")
    res.exhaustive = True
    res.notes.append("gate strings over the fixed alphabets enumerated completely up to the stated length; "
                     "boundary patterns enumerated completely; random part sampled")
    res.assumptions.append("sympy's Not/And/Xor constructors preserve meaning (validated: every reported expression is "
                           "evaluated by harness/bexp.eval_json against the harness' own gate simulator)")
    res.assumptions.append("gate tuples are built by QCircuit.append (arity = n_qubits, distinct wires)")
    return res


def witness_fails(ctx: Ctx, f):
    w = f.get("witness", {})
    n, gates = w["n"], w["gates"]
    out = code_decompile(n, gates)
    return judge(n, gates, out) is not None


def replay(ctx: Ctx, payload):
    first = payload.get("first") or {}
    case = first.get("case", {})
    if "gates_json" not in case:
        print("no failing input in this replay file (tie-broken record)")
        return 2
    n, gates = case["n"], case["gates_json"]
    print("replaying", json.dumps(case.get("gates")), "on", n, "qubits")
    out = code_decompile(n, gates)
    print("code:", json.dumps(canon_out(n, out)))
    v = judge(n, gates, out)
    print("oracle:", "property holds" if v is None else v[0])
    if v is not None:
        print("expected:", json.dumps(v[1]))
    return 0 if v is None else 1
