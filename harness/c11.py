"""C11 - decompiled expressions describe exactly what the gates do.

Always-on search on the real code: circuits with classical runs (X/CX/CCX/MCX, also I and
MCtrl(X)) interleaved with non-classical gates and barriers at every boundary position, all gate
strings up to a length over a small alphabet on 3 qubits, random circuits.  The real
`Decompiler().decompile` is judged by an oracle written here from the property text alone
(own run splitter + own classical simulator + own expression evaluator `bexp.eval_json`):
sections == maximal classical runs, index range starts at the run's first gate and ends after
its last gate (only barriers may follow inside the range), gate list exact, every qubit's
expression (identity when none is reported) equals the simulated final value on every basis
state.  Correspondence: the same circuits through the Lean model (QV.Model.Decompiler) with the
active quirks: error text / index ranges / gate lists exact, expressions by truth table.

Gate OBJECTS shared between positions: an applied gate is a tuple (gate object, wires, param) and gate objects
compare by identity, so two positions hold equal tuples exactly when the same object sits on the same wires
(`qc += sub` twice, append_circuit twice, `qc += qc`).  `sharing_cases` / `random_shared_cases` build such circuits
gate by gate (equal JSON id > 0 = one object, harness/circ.py build_qc) and through the real composition API
(`circ.build_api`, recipes), `wide_cases` / `random_wide_cases` circuits on 10..16 qubits (q10 sorts before q2 as
text) and circuits whose qubits carry user-chosen names (the decompiler names qubits q{index} whatever they are
called).  Wide circuits are judged on every assignment of the qubits a section involves (wires of its gates, keys
and symbols of its expressions; more than 10 of them: a fixed sample), the others 0.

HISTORIES on one object (`history_cases`, `random_history_cases`, `check_containers`): the same Decompiler object used
for 2, 3, 5 circuits in a row (same circuit / same QCircuit object again, other circuits, qubit counts, names, an
empty circuit or a call that raises in between, the QCircuit object grown in place, the result emptied by the
caller), two or three Decompiler objects interleaved.  Every call is judged like a single case and compared with
the (stateless) model; in addition it must equal what a new Decompiler() returns on an equal circuit, and the result
of every earlier call is read again after every later call and must not have changed.
"""
from __future__ import annotations

import itertools
import json
import random

from . import bexp, circ
from .common import Ctx, Result

LEVEL = "proof"

QUIRK_I = "identityGateRaises"
QUIRK_M = "mctrlXSplits"


# ------------------------------------------------------------------ gates as JSON

def G(c, w, n=0, g="", p=None):
    return {"c": c, "n": n, "g": g, "w": list(w), "p": p, "id": 0}


def gkey(d):
    return (d["c"], d["n"] if d["c"] in ("MCX", "MCtrl") else 0, d["g"] if d["c"] == "MCtrl" else "", tuple(d["w"]), d.get("p"))


def kind(d):
    """the property's classification, independent of the code: 'cl' classical reversible
    (identity, X, CX, CCX, multi-controlled X), 'nop' barrier / no-op, 'sep' anything else"""
    c = d["c"]
    if c in ("I", "X", "CX", "CCX", "MCX"):
        return "cl"
    if c == "MCtrl" and d["g"] == "X":
        return "cl"
    if c in ("Barrier", "NopGate"):
        return "nop"
    return "sep"


def simulate(run, state):
    s = list(state)
    for d in run:
        if d["c"] == "I":
            continue
        w = d["w"]
        if all(s[i] for i in w[:-1]):
            s[w[-1]] = not s[w[-1]]
    return s


def expected_runs(gates):
    """maximal runs of classical gates (nops ignored): (first, last, next_sep_or_len, [gates])"""
    runs, cur = [], None
    for i, d in enumerate(gates):
        k = kind(d)
        if k == "cl":
            if cur is None:
                cur = [i, i, None, []]
            cur[1] = i
            cur[3].append(d)
        elif k == "sep":
            if cur is not None:
                cur[2] = i
                runs.append(cur)
                cur = None
    if cur is not None:
        cur[2] = len(gates)
        runs.append(cur)
    return runs


# ------------------------------------------------------------------ the real code

def code_decompile(n, gates, opts=None):
    """run the real decompiler on a real circuit: built gate by gate (equal id > 0 = the same gate object,
    `names` = user-chosen qubit names) or, when the case carries a recipe, through the library's own
    composition API (qc += sub twice, append_circuit, repeat, ...)"""
    from qlasskit.decompiler import Decompiler

    opts = opts or {}
    if opts.get("recipe"):
        qc = circ.build_api(opts["recipe"])
    else:
        qc = circ.build_qc(n, gates, names=opts.get("names"))
    try:
        res = Decompiler().decompile(qc)
    except Exception as e:  # noqa
        return {"error": str(e), "etype": type(e).__name__}
    return result_json(res, len(qc.gates) + 3)


def result_json(res, limit=None):
    """what a DecompilerResults object says right now (read through its public iteration).  A circuit of g gates has
    at most g classical runs: reading stops after `limit` = g + 3 sections (a result that keeps growing from call to
    call is wrong from its first surplus section on; reading all of it every time would only make the run quadratic)"""
    secs = []
    for s in res:
        if limit is not None and len(secs) >= limit:
            return {"sections": secs, "more_sections_not_read": True}
        exps = []
        for k, e in s.expressions:
            exps.append([getattr(k, "name", repr(k)), bexp.to_json(e)])
        secs.append({"start": s.index[0], "stop": s.index[1],
                     "gates": [circ.gate_to_json(g, w, p) for g, w, p in s.gates], "exps": exps})
    return {"sections": secs}


# ------------------------------------------------------------------ the oracle

FULL = 6        # up to this many qubits a section is judged on all 2^n basis states of the circuit
EXH_BITS = 10   # above: on every assignment of the qubits the section involves, when these are at most so many


def involved(n, gates, exps):
    """the qubits a section can depend on or change: wires of its gates, keys and symbols of its expressions
    (all qubits for small circuits)"""
    if n <= FULL:
        return list(range(n))
    used = {i for d in gates for i in d["w"]}
    for k, e in exps:
        for nm in [k] + list(bexp.syms_json(e)):
            if nm[:1] == "q" and nm[1:].isdigit() and int(nm[1:]) < n:
                used.add(int(nm[1:]))
    return sorted(used)


def states_over(n, used):
    """basis states of the n-qubit circuit over the qubits `used` (the others 0): all of them, or - more than
    EXH_BITS qubits - 0..0, 1..1, every state of weight 1 / co-weight 1 and 300 fixed pseudo-random ones"""
    m = len(used)
    if m <= EXH_BITS:
        ks = range(2 ** m)
    else:
        r = random.Random(f"{n}:{used}")
        ks = [0, 2 ** m - 1] + [1 << i for i in range(m)] + [(2 ** m - 1) ^ (1 << i) for i in range(m)] + \
             [r.getrandbits(m) for _ in range(300)]
    for k in ks:
        st = [False] * n
        for b, i in enumerate(used):
            st[i] = bool((k >> b) & 1)
        yield st


def exps_table(n, exps, used=None):
    """truth table of the per-qubit functions (identity where no expression) of the qubits `used` (default: all)
    on states_over(n, used), or an error string"""
    if used is None:
        used = list(range(n))
    names = [f"q{i}" for i in range(n)]
    d = {}
    for k, e in exps:
        if k in d:
            return f"two expressions for {k}"
        if k not in names:
            return f"expression for unknown qubit {k}"
        d[k] = e
    for k in d:
        if int(k[1:]) not in used:
            return f"expression for {k}, which the section does not involve"
    es = [d.get(names[i], ["sym", names[i]]) for i in used]
    for e in es:
        for s in bexp.syms_json(e):
            if s not in names:
                return f"unknown symbol {s}"
    out = []
    for st in states_over(n, used):
        env = {names[i]: st[i] for i in range(n)}
        for e in es:
            out.append("1" if bexp.eval_json(e, env) else "0")
    return "".join(out)


def run_table(n, run, used=None):
    if used is None:
        used = list(range(n))
    out = []
    for st in states_over(n, used):
        fin = simulate(run, st)
        out.append("".join("1" if fin[i] else "0" for i in used))
    return "".join(out)


def judge(n, gates, out):
    """None if `out` (the code's observable result) satisfies the property on this circuit,
    else (what, expected)"""
    runs = expected_runs(gates)
    exp_ranges = [(r[0], r[1] + 1) for r in runs]
    if "error" in out:
        return ("decompile raised: " + out["error"], dict(ranges=exp_ranges))
    secs = out["sections"]
    if len(secs) != len(runs):
        return (f"{len(secs)} sections reported for {len(runs)} maximal classical runs", dict(ranges=exp_ranges))
    for s, (first, last, nxt, rg) in zip(secs, runs):
        if s["start"] != first or not (last < s["stop"] <= nxt):
            return (f"section range {(s['start'], s['stop'])} does not cover exactly the run at {first}..{last}",
                    dict(ranges=exp_ranges))
        if [gkey(d) for d in s["gates"]] != [gkey(d) for d in rg]:
            return ("section gate list is not the run's gate list", dict(gates=rg))
        used = involved(n, rg, s["exps"])
        tab = exps_table(n, s["exps"], used)
        want = run_table(n, rg, used)
        if tab != want:
            return (f"expressions of section {(s['start'], s['stop'])} do not give the gates' action on every basis state",
                    dict(table=want, got=tab, qubits=used))
    return None


# ------------------------------------------------------------------ generators

def alphabet(extra=False):
    a = [G("X", [0]), G("CX", [0, 1]), G("CX", [1, 2]), G("CCX", [0, 1, 2]), G("MCX", [2, 0, 1], n=2),
         G("H", [1]), G("Barrier", []), G("Swap", [0, 2]), G("T", [0])]
    if extra:
        a += [G("I", [1]), G("MCtrl", [0, 1, 2], n=2, g="X")]
    return a


SEPS = [G("H", [0]), G("Z", [1]), G("S", [0]), G("T", [2]), G("Y", [1]), G("P", [0], p="0.5"), G("Swap", [0, 1]),
        G("CZ", [0, 2]), G("CP", [1, 2], p="0.25"), G("MCtrl", [0, 1, 2], n=2, g="Z"), G("MCtrl", [0, 1], n=1, g="H")]
RUNS = [
    [G("X", [0])],
    [G("CX", [0, 1])],
    [G("CCX", [0, 1, 2])],
    [G("MCX", [0, 1, 2], n=2)],
    [G("MCX", [1], n=0)],
    [G("MCX", [2, 1], n=1)],
    [G("X", [0]), G("CX", [0, 1]), G("CCX", [0, 1, 2])],
    [G("X", [1]), G("X", [1])],
    [G("CX", [0, 1]), G("CX", [1, 0]), G("CX", [0, 1])],
    [G("CCX", [2, 1, 0]), G("X", [2]), G("MCX", [0, 2, 1], n=2), G("CX", [1, 2])],
]
QUIRKY = [G("I", [0]), G("I", [2]), G("MCtrl", [0, 1, 2], n=2, g="X"), G("MCtrl", [1, 0], n=1, g="X"),
          G("MCtrl", [2], n=0, g="X")]


def boundary_cases():
    """classical runs around one boundary gate, barriers at every boundary position"""
    B = G("Barrier", [])
    N = G("NopGate", [])
    out = []
    # single gates and single runs, with leading / trailing barriers
    for r in RUNS + [[g] for g in SEPS + QUIRKY] + [[]]:
        for lead in (0, 1, 2):
            for trail in (0, 1, 2, 3):
                out.append((3, [B] * lead + r + [B] * trail))
    # run sep run
    for ri, r1 in enumerate(RUNS):
        r2 = RUNS[(ri + 3) % len(RUNS)]
        for sep in SEPS + QUIRKY:
            for lead in (0, 1):
                for b1 in (0, 1, 2):
                    for b2 in (0, 1):
                        for trail in (0, 1, 2):
                            out.append((3, [B] * lead + r1 + [B] * b1 + [sep] + [B] * b2 + r2 + [B] * trail))
    # barriers inside runs, NopGate objects, two separators in a row, separator first / last
    for r in RUNS:
        if len(r) >= 2:
            for pos in range(1, len(r)):
                out.append((3, r[:pos] + [B] + r[pos:]))
                out.append((3, r[:pos] + [B, N] + r[pos:] + [N, SEPS[0]]))
        out.append((3, [SEPS[0], SEPS[1]] + r + [SEPS[2], SEPS[3]]))
        out.append((3, [SEPS[0], B] + r + [N, SEPS[2]] + r))
        out.append((3, r + [N]))
        out.append((3, r + [N, N, SEPS[4]] + r + [B, N]))
    return out


def strings_cases(alpha, maxlen):
    for L in range(0, maxlen + 1):
        for t in itertools.product(range(len(alpha)), repeat=L):
            yield (3, [alpha[i] for i in t])


def random_cases(rng, count):
    kinds = ["X", "CX", "CCX", "MCX", "X", "CX", "CCX", "MCX", "H", "Z", "Y", "S", "T", "P", "CP", "CZ", "Swap",
             "MCtrlZ", "Barrier", "Barrier"]
    kinds_q = kinds + ["MCtrlX", "I"]
    for k in range(count):
        n = rng.randint(1, 5)
        L = rng.randint(1, 14)
        ks = kinds_q if k % 5 == 0 else kinds
        gs = []
        for _ in range(L):
            if rng.random() < 0.04:
                gs.append(G("NopGate", []))
            else:
                gs.append(circ.rand_gate(rng, n, kinds=ks))
        yield (n, gs)


# ---------------------------------------------------------------- shared gate objects, wide circuits

api_case = circ.api_case


def sharing_cases():
    """the same gate OBJECT at several positions / in several sections (what `qc += sub` twice produces): on the
    same wires (equal applied-gate tuples), on other wires, first / inner / last gate of a section, shared
    separators and barriers; gate by gate (ids) and through the real API"""
    B = G("Barrier", [])
    out = []
    Hs, Ts, Bs, Ns = dict(SEPS[0], id=90), dict(SEPS[3], id=91), dict(B, id=92), dict(G("NopGate", []), id=93)
    runs = RUNS + [[G("I", [0]), G("X", [1])], [G("MCtrl", [0, 1, 2], n=2, g="X"), G("CX", [2, 0])]]
    for ri, r in enumerate(runs):
        s = circ.with_ids(r, 1)
        t = circ.with_ids(runs[(ri + 3) % len(runs)], 20)
        rot = [dict(d, w=[(i + 1) % 3 for i in d["w"]]) for d in s]
        for sep in (SEPS[0], SEPS[6], SEPS[9]):
            out.append((3, s + [sep] + s))
            out.append((3, s + [sep] + s + [sep] + s))
            out.append((3, t + [sep] + s + [sep] + t + [B, sep] + s))
            out.append((3, [sep] + s + [B, sep, B] + s + [B]))
        out.append((3, s + [Hs] + s[:1] + t))              # only the first object of the later section is an old one
        out.append((3, t + [Hs] + t[:-1] + s[-1:] + [Ts] + s))    # the last gate of a section occurs again later
        out.append((3, s + [Hs] + s[1:] + [Hs] + s[-1:] + [Hs] + s))
        out.append((3, s + [Hs] + rot))                    # same objects, other wires
        out.append((3, rot + [Hs] + s + [Ts] + rot))
        out.append((3, [Hs] + s + [Hs] + t + [Hs] + s))    # one separator object at three positions
        out.append((3, s + [Bs, Hs, Bs] + s + [Bs]))       # one barrier object at three positions
        out.append((3, s + [Ns, Ts, Ns, Bs] + s + [Ns, Hs] + t))
        out.append((3, s + s + [Hs] + s))
        # same first objects, same length, other last gate
        out.append((3, s + [Hs] + s[:-1] + [G("X", [2])] + [Hs] + s[:-1] + [G("X", [0])]))
        out.append((3, s[:-1] + [G("X", [1])] + [Hs] + s))                  # twice inside one section, then again
        out.append((3, s + [B] + s + [Hs, Hs] + s + [B]))
        out.append((5, s + [G("H", [4])] + t + [G("H", [3])] + s))
        # through the API
        sub, sub2 = dict(n=3, gates=r), dict(n=3, gates=runs[(ri + 3) % len(runs)])
        mixed = dict(n=3, gates=[SEPS[0]] + r + [SEPS[3], B] + sub2["gates"])
        gate = lambda d: dict(op="gate", g=d)
        iadd = lambda k: dict(op="iadd", sub=k)
        app = lambda k, q: dict(op="append_circuit", sub=k, qubits=q)
        subs = [sub, sub2, mixed]
        for steps, n in [
            ([iadd(0), gate(SEPS[0]), iadd(0)], 3),
            ([iadd(0), gate(SEPS[6]), iadd(0), gate(SEPS[9]), iadd(0)], 3),
            ([iadd(1), gate(SEPS[0]), iadd(0), gate(B), gate(SEPS[1]), iadd(1), gate(SEPS[2]), iadd(0)], 3),
            ([app(0, [1, 2, 3]), gate(G("H", [4])), app(0, [1, 2, 3])], 5),
            ([app(0, [0, 1, 2]), gate(G("H", [4])), app(0, [2, 3, 4]), gate(G("Z", [0])), app(0, [0, 1, 2])], 5),
            ([app(0, [4, 2, 0]), gate(G("T", [1])), app(1, [4, 2, 0]), gate(G("T", [1])), app(0, [4, 2, 0])], 5),
            ([iadd(0), gate(SEPS[0]), dict(op="iadd_self")], 3),
            ([gate(SEPS[4]), iadd(0), dict(op="iadd_self"), dict(op="iadd_self")], 3),
            ([gate(SEPS[0]), iadd(0), dict(op="repeat", times=2)], 3),
            ([iadd(0), gate(B), gate(SEPS[5]), dict(op="repeat", times=3)], 3),
            ([iadd(0), gate(SEPS[0]), dict(op="add", sub=0), gate(SEPS[1]), iadd(0)], 3),
            ([iadd(2), iadd(2)], 3),
            ([iadd(2), gate(B), iadd(2), gate(SEPS[7]), iadd(0)], 3),
        ]:
            out.append(api_case(dict(n=n, subs=subs, steps=steps)))
        names = circ.name_schemes(5)
        for nm in ("letters", "reversed-q", "shifted-q"):
            out.append(api_case(dict(n=5, names=names[nm], subs=subs,
                                     steps=[app(0, [1, 2, 3]), gate(G("H", [4])), app(0, [1, 2, 3]), gate(G("H", [0])), app(1, [3, 4, 0])])))
    return out


WIDE = (10, 11, 12, 16)


def remap(gates, m):
    return [dict(d, w=[m[i] for i in d["w"]]) for d in gates]


def wide_triples(n):
    return [(0, 1, 2), (n - 1, 2, n - 2), (1, n - 1, 0), (2, 3, n - 1), (n - 2, n - 1, n - 3), (8, 1, n - 1)]


def wide_cases():
    """circuits on 10, 11, 12, 16 qubits: qubit names q10.. sort before q2 as text; user-chosen names"""
    B = G("Barrier", [])
    out = []
    for n in WIDE:
        names = circ.name_schemes(n)
        trs = wide_triples(n)
        for ri, r in enumerate(RUNS):
            for ti, m in enumerate(trs):
                m2 = trs[(ti + 1) % len(trs)]
                sep = remap([SEPS[(ri + ti) % len(SEPS)]], m2)
                out.append((n, remap(r, m)))
                out.append((n, remap(r, m) + sep + remap(RUNS[(ri + 3) % len(RUNS)], m2) + [B]))
            m = trs[ri % len(trs)]
            s = circ.with_ids(remap(r, m), 1)
            out.append((n, s + [G("H", [n - 1])] + s + [G("Swap", [2, n - 1])] + s))
            for nm in ("letters", "reversed-q", "shifted-q", "padded", "words"):
                out.append((n, remap(r, m) + [G("H", [n - 1])] + remap(r, trs[(ri + 2) % len(trs)]), dict(names=names[nm])))
        # one gate on every qubit; a multi-controlled X over many qubits; a run over all qubits
        out.append((n, [G("X", [i]) for i in range(n)]))
        out.append((n, [G("X", [i]) for i in reversed(range(n))] + [G("H", [n - 1])] + [G("CX", [i, (i + 1) % n]) for i in range(n)]))
        k = min(n - 1, 9)
        w = list(range(n - 1, n - 2 - k, -1))
        out.append((n, [G("MCX", w, n=k), G("X", [w[0]]), G("MCtrl", w[::-1], n=k, g="X")]))
        out.append((n, [G("CX", [i, i + 1]) for i in range(n - 1)] + [G("Z", [n - 1])] + [G("CCX", [i + 2, i, i + 1]) for i in range(n - 2)]))
    return out


def random_shared_cases(rng, count):
    """random sequences over a small pool of applied gates whose gate objects are reused (same or other wires)"""
    for k in range(count):
        n = rng.randint(2, 5)
        pool = []
        for i in range(rng.randint(2, 5)):
            d = circ.rand_gate(rng, n, kinds=["X", "CX", "CCX", "MCX", "X", "CX", "H", "Swap", "T", "CZ", "Barrier", "MCtrlX", "I"])
            pool.append(dict(d, id=i + 1))
        gs = []
        for _ in range(rng.randint(2, 14)):
            d = dict(rng.choice(pool))
            x = rng.random()
            if x < 0.15 and d["w"]:
                d["w"] = rng.sample(range(n), len(d["w"]))     # the same object on other wires
            elif x < 0.25:
                d["id"] = 0                                     # an equal gate, but a new object
            gs.append(d)
        yield (n, gs)


def random_api_cases(rng, count):
    for k in range(count):
        n = rng.randint(3, 6)
        subs = []
        for _ in range(rng.randint(1, 3)):
            m = rng.randint(1, min(n, 4))
            subs.append(dict(n=m, gates=[circ.rand_gate(rng, m, kinds=["X", "CX", "CCX", "MCX", "X", "CX", "H", "T", "Barrier", "Swap"])
                                         for _ in range(rng.randint(1, 5))]))
        steps = []
        for _ in range(rng.randint(2, 6)):
            x = rng.random()
            j = rng.randrange(len(subs))
            if x < 0.35:
                steps.append(dict(op="append_circuit", sub=j, qubits=rng.sample(range(n), subs[j]["n"])))
            elif x < 0.55 and subs[j]["n"] <= n:
                steps.append(dict(op="iadd", sub=j))
            elif x < 0.62:
                steps.append(dict(op="iadd_self"))
            elif x < 0.68:
                steps.append(dict(op="repeat", times=rng.randint(1, 3)))
            elif x < 0.74:
                steps.append(dict(op="add", sub=j))
            else:
                steps.append(dict(op="gate", g=circ.rand_gate(rng, n, kinds=["H", "Z", "S", "Swap", "CZ", "X", "CX", "Barrier"])))
        names = rng.choice(list(circ.name_schemes(n).values()))
        c = api_case(dict(n=n, names=names, subs=subs, steps=steps))
        if len(c[1]) <= 60:
            yield c


def random_wide_cases(rng, count):
    kinds = ["X", "CX", "CCX", "MCX", "X", "CX", "CCX", "H", "Z", "S", "CZ", "Swap", "MCtrlZ", "MCtrlX", "Barrier", "I"]
    for k in range(count):
        n = rng.choice([10, 11, 12, 13, 16])
        gs = [circ.rand_gate(rng, n, kinds=kinds) for _ in range(rng.randint(1, 12))]
        if k % 3 == 0:
            # gates concentrated on the qubits whose names sort differently
            hot = sorted({0, 1, 2, 3, 9, n - 1, n - 2})
            gs = [dict(d, w=[hot[i % len(hot)] for i in rng.sample(range(len(hot)), len(d["w"]))]) for d in gs]
        if k % 4 == 1:
            gs = [dict(d, id=1 + rng.randrange(3)) if d["c"] == "X" else d for d in gs]
        names = rng.choice(list(circ.name_schemes(n).values())) if k % 2 else None
        yield (n, gs, dict(names=names))


# ------------------------------------------------------------------ comparison with the model

def canon_out(n, out):
    """exact part + functional part of a result (code or model)"""
    if "error" in out:
        return {"error": out["error"]}
    secs = []
    for s in out["sections"]:
        used = involved(n, s["gates"], s["exps"])
        d = dict(range=[s["start"], s["stop"]], gates=[list(map(str, gkey(d))) for d in s["gates"]],
                 table=exps_table(n, s["exps"], used))
        if n > FULL:
            d["qubits"] = used
        secs.append(d)
    if out.get("more_sections_not_read"):
        return {"sections": secs, "more_sections_not_read": True}
    return {"sections": secs}


def has_I(gates):
    return any(d["c"] == "I" for d in gates)


def has_mctrl_x(gates):
    return any(d["c"] == "MCtrl" and d["g"] == "X" for d in gates)


def active_quirks(ctx):
    return sorted({f["quirk"] for f in ctx.findings if f.get("status", "open") == "open" and f.get("_active") and f.get("quirk")})


def malformed(n, gates):
    """a gate on a qubit the circuit does not have (QCircuit.append lets index == num_qubits through): outside the
    property; only the histories use such circuits, as a call that raises in the middle of the work"""
    return any(i >= n or i < 0 for d in gates for i in d["w"])


def check_batch(ctx, res, cases, bucket, outs=None, wrap=None):
    """run code + oracle + model on a batch of (n, gates).  `outs`: the code's results when they were obtained
    elsewhere (the calls of a history), `wrap[i]`: what to add to the i-th case (history, call number)"""
    quirks = active_quirks(ctx)
    fid = {f["quirk"]: f["id"] for f in ctx.findings if f.get("status", "open") == "open" and f.get("_active")}
    cases = [c if len(c) == 3 else (c[0], c[1], None) for c in cases]
    if outs is None:
        outs = []
        for n, gates, opts in cases:
            outs.append(code_decompile(n, gates, opts))
    reqs = []
    for n, gates, opts in cases:
        reqs.append(dict(op="c11.decompile", n=n, gates=gates, quirks=quirks))
        reqs.append(dict(op="c11.decompile", n=n, gates=gates, quirks=[]))
    replies = ctx.model(reqs)
    for idx, ((n, gates, opts), out) in enumerate(zip(cases, outs)):
        case = dict(n=n, gates=[[d["c"] + (str(d["n"]) if d["c"] in ("MCX", "MCtrl") else "") + d["g"], d["w"]] + ([d["p"]] if d["p"] else []) for d in gates],
                    gates_json=gates)
        nshared = circ.shared_positions(gates)
        if nshared:
            case["same_gate_object_as_an_earlier_position"] = [i for i, d in enumerate(gates) if d.get("id") and
                                                               any(e.get("id") == d["id"] for e in gates[:i])]
            res.extra["cases_with_shared_gate_objects"] = res.extra.get("cases_with_shared_gate_objects", 0) + 1
        if n >= 10:
            res.extra["cases_on_10_or_more_qubits"] = res.extra.get("cases_on_10_or_more_qubits", 0) + 1
        if opts:
            if opts.get("names"):
                case["names"] = opts["names"]
            if opts.get("recipe"):
                case["recipe"] = opts["recipe"]
                res.extra["cases_built_through_the_api"] = res.extra.get("cases_built_through_the_api", 0) + 1
            if opts.get("api_mismatch"):
                res.disagree(case, "the circuit the library's composition API builds is not the gate list the recipe denotes",
                             code=opts["api_mismatch"])
        nontrivial = sum(1 for d in gates if kind(d) == "cl") >= 1 and len(gates) >= 2
        pre = ""
        if wrap is not None:
            case.update(wrap[idx])
            pre = f"call {wrap[idx]['call']} of the history: "
            res.count(dict(history=wrap[idx]["history"]["label"], call=wrap[idx]["call"], n=n, gates=case["gates"]),
                      nontrivial=nontrivial, bucket=bucket)
        else:
            res.count({k: v for k, v in case.items() if k != "gates_json"} if (opts or nshared) else dict(n=n, gates=case["gates"]),
                      nontrivial=nontrivial, bucket=bucket)
        bad_wires = malformed(n, gates)
        verdict = None if bad_wires else judge(n, gates, out)
        c_code = canon_out(n, out)
        m_quirk = m_none = None
        if replies is not None:
            rq, rn = replies[2 * idx], replies[2 * idx + 1]
            if "driver_error" in rq or "driver_error" in rn:
                res.disagree(case, "model driver error", code=c_code, model=rq)
            else:
                m_quirk, m_none = canon_out(n, rq), canon_out(n, rn)
                if m_quirk != c_code:
                    res.disagree(case, pre + "model (with the active quirks) and code differ", code=c_code, model=m_quirk)
                # the repaired model must satisfy the property (it is what the theorems are about)
                v_none = None if bad_wires else judge(n, gates, rn)
                if v_none is not None:
                    res.disagree(case, "the repaired model violates the oracle: " + v_none[0], model=m_none)
        if verdict is None:
            continue
        what, expected = verdict
        # attribution: exact trigger + exact reproduction by the quirk model
        attributed = None
        if m_quirk is not None and m_quirk == c_code:
            if QUIRK_I in fid and has_I(gates) and c_code == {"error": "Gate not handled for decompilation: I"}:
                attributed = fid[QUIRK_I]
            elif QUIRK_M in fid and has_mctrl_x(gates) and not has_I(gates) and "sections" in c_code:
                attributed = fid[QUIRK_M]
        if attributed:
            res.known(attributed)
        else:
            res.violation(case, pre + what, code=c_code, expected=expected)


# ------------------------------------------------------------------ histories on one object
#
# history = {label, circuits: [{n, gates, names?, recipe?}], steps: [step]},
# step    = {inst: i, circ: j, slot?: s, add?: [gates], scribble?: true}
#   inst      which Decompiler object makes the call (created at its first step, then kept)
#   circ      the circuit; without `slot` a new QCircuit object is built for the call
#   slot      a QCircuit object that is kept: built from `circ` at the slot's first step, the SAME object is passed
#             again at its later steps, after `add` (gates appended to it in place, through QCircuit.append)
#   scribble  after the call's result has been read, the caller empties the object it got (its section list, and
#             the gate / expression lists of the sections): a later call must not hand this object out again

def hist_build(c, adds=()):
    qc = circ.build_api(c["recipe"]) if c.get("recipe") else circ.build_qc(c["n"], c["gates"], names=c.get("names"))
    hist_append(qc, adds)
    return qc


def hist_append(qc, gates):
    for d in gates:
        qc.append(circ.make_gate(d), list(d["w"]), circ._param(d))


def safe_json(r, limit=None):
    try:
        return result_json(r, limit)
    except Exception as e:  # noqa
        return {"error": "reading the result raised " + type(e).__name__ + ": " + str(e), "etype": type(e).__name__}


def scribble(r):
    try:
        for s in list(r):
            s.gates.clear()
            s.expressions.clear()
            s.index = (-7, -7)
        r.sections.clear()
    except Exception:  # noqa
        pass


def run_history(h):
    """play a history on the real code.  Per call: the circuit it was about (n, gates as the harness denotes them,
    opts), what the result said right after the call, what a NEW Decompiler says about an equal, newly built
    circuit, and whether the result object said something else after a later call"""
    from qlasskit.decompiler import Decompiler

    insts, slots, calls = {}, {}, []
    for k, st in enumerate(h["steps"]):
        c = h["circuits"][st["circ"]]
        s = st.get("slot")
        if s is None:
            adds = []
            qc = hist_build(c)
        elif s not in slots:
            adds = []
            slots[s] = [hist_build(c), c, adds]
            qc = slots[s][0]
        else:
            qc, c, adds = slots[s]
            hist_append(qc, st.get("add") or [])
            adds.extend(dict(d, id=0) for d in (st.get("add") or []))
        gates = list(c["gates"]) + list(adds)
        call = dict(n=c["n"], gates=gates, opts=dict(names=c.get("names")) if c.get("names") else None, obj=None,
                    changed=None, same_object_as=[])
        try:
            if st["inst"] not in insts:
                insts[st["inst"]] = Decompiler()
            r = insts[st["inst"]].decompile(qc)
            call["obj"] = r
            call["out"] = safe_json(r, len(gates) + 3)
        except Exception as e:  # noqa
            call["out"] = {"error": str(e), "etype": type(e).__name__}
        # a new object on an equal circuit
        try:
            r2 = Decompiler().decompile(hist_build(c, adds))
            call["fresh"] = safe_json(r2, len(gates) + 3)
        except Exception as e:  # noqa
            call["fresh"] = {"error": str(e), "etype": type(e).__name__}
        # what the earlier calls' results say now
        for j, cj in enumerate(calls):
            if cj["obj"] is None or cj["changed"] is not None or cj.get("scribbled"):
                continue
            now = safe_json(cj["obj"], len(cj["gates"]) + 3)
            if now != cj["out"]:
                cj["changed"] = dict(after_call=k, now=now)
        for j, cj in enumerate(calls):
            if cj["obj"] is not None and call["obj"] is not None:
                a, b = cj["obj"], call["obj"]
                if a is b or getattr(a, "sections", 1) is getattr(b, "sections", 2) or \
                        ({id(x) for x in getattr(a, "sections", [])} & {id(x) for x in getattr(b, "sections", [])}):
                    call["same_object_as"].append(j)
        if st.get("scribble") and call["obj"] is not None:
            scribble(call["obj"])
            call["scribbled"] = True
        calls.append(call)
    return calls


def hist_verdicts(calls):
    """history-level part of the oracle: [(call, what, info)].  (Each call's result is judged against its own
    circuit by `judge` like any single case.)"""
    bad = []
    for k, c in enumerate(calls):
        if canon_free(c["out"]) != canon_free(c["fresh"]):
            bad.append((k, f"call {k} of the history: a Decompiler object that was used before returns something else than a new "
                           "Decompiler() does on an equal circuit", dict(used_object=c["out"], new_object=c["fresh"],
                                                                         result_object_shared_with_calls=c["same_object_as"])))
        if c["changed"] is not None:
            bad.append((k, f"the result of call {k} of the history says something else after call {c['changed']['after_call']}",
                        dict(right_after_the_call=c["out"], later=c["changed"]["now"])))
    return bad


def canon_free(out):
    return {"error": out["error"]} if "error" in out else out


def check_histories(ctx, res, hists, bucket):
    """all calls of all histories through check_batch (per-call oracle, model <-> code, attribution), then the
    history-level oracle"""
    cases, outs, wrap, per = [], [], [], []
    for h in hists:
        calls = run_history(h)
        hj = dict(label=h["label"], circuits=h["circuits"], steps=h["steps"])
        for k, c in enumerate(calls):
            cases.append((c["n"], c["gates"], c["opts"]))
            outs.append(c["out"])
            wrap.append(dict(history=hj, call=k))
        per.append((hj, calls))
        x = res.extra.setdefault("histories", dict(histories=0, calls=0, by_number_of_calls={}, by_number_of_objects={},
                                                   by_feature={}))
        x["histories"] += 1
        x["calls"] += len(calls)
        for key, v in (("by_number_of_calls", len(calls)), ("by_number_of_objects", len({s["inst"] for s in h["steps"]}))):
            x[key][str(v)] = x[key].get(str(v), 0) + 1
        for f in hist_features(h):
            x["by_feature"][f] = x["by_feature"].get(f, 0) + 1
    check_batch(ctx, res, cases, bucket, outs=outs, wrap=wrap)
    for hj, calls in per:
        for k, what, info in hist_verdicts(calls):
            c = calls[k]
            res.violation(dict(n=c["n"], gates=[[d["c"], d["w"]] for d in c["gates"]], gates_json=c["gates"], history=hj, call=k),
                          what, **info)


def hist_features(h):
    fs = set()
    cs, steps = h["circuits"], h["steps"]
    seq = [(s["circ"], json.dumps(s.get("add") or [])) for s in steps]
    if any(seq[i][0] == seq[j][0] for i in range(len(seq)) for j in range(i)):
        fs.add("a circuit decompiled again")
    if len({s["circ"] for s in steps}) > 1:
        fs.add("different circuits")
    if len({cs[s["circ"]]["n"] for s in steps}) > 1:
        fs.add("different qubit counts")
    if any(not cs[s["circ"]]["gates"] for s in steps):
        fs.add("empty circuit")
    if any(cs[s["circ"]]["gates"] and not expected_runs(cs[s["circ"]]["gates"]) for s in steps):
        fs.add("circuit without a classical gate")
    if any(cs[s["circ"]].get("names") for s in steps):
        fs.add("user-chosen qubit names")
    if any(cs[s["circ"]].get("recipe") for s in steps):
        fs.add("circuit built through the composition API")
    if any(malformed(cs[s["circ"]]["n"], cs[s["circ"]]["gates"]) for s in steps):
        fs.add("a call that raises (gate on a missing qubit)")
    if any(s.get("slot") is not None for s in steps):
        fs.add("same QCircuit object passed again")
    if any(s.get("add") for s in steps):
        fs.add("QCircuit object extended in place between calls")
    if any(s.get("scribble") for s in steps):
        fs.add("caller empties a result it got")
    insts = [s["inst"] for s in steps]
    if len(set(insts)) > 1:
        fs.add("two or more Decompiler objects interleaved")
    if any(insts[i] in insts[:i] for i in range(len(insts))):
        fs.add("one Decompiler object used again")
    return sorted(fs)


def mk_history(label, circuits, steps):
    """circuits: {key: (n, gates[, opts])}, steps: [(inst, key[, {slot, add, scribble}])]"""
    keys, cs, st = {}, [], []
    for s in steps:
        inst, key = s[0], s[1]
        extra = s[2] if len(s) > 2 else {}
        if key not in keys:
            c = circuits[key]
            o = (c[2] if len(c) > 2 else None) or {}
            d = dict(n=c[0], gates=c[1])
            if o.get("names"):
                d["names"] = o["names"]
            if o.get("recipe"):
                d["recipe"] = o["recipe"]
            keys[key] = len(cs)
            cs.append(d)
        st.append(dict(inst=inst, circ=keys[key], **extra))
    return dict(label=label, circuits=cs, steps=st)


def history_shapes(r2_add):
    S0, SCR = dict(slot=0), dict(scribble=True)
    return [
        ("same circuit twice", [(0, "a"), (0, "a")]),
        ("same QCircuit object twice", [(0, "a", S0), (0, "a", S0)]),
        ("a b", [(0, "a"), (0, "b")]),
        ("b a", [(0, "b"), (0, "a")]),
        ("a b a", [(0, "a"), (0, "b"), (0, "a")]),
        ("b empty a", [(0, "b"), (0, "empty"), (0, "a")]),
        ("empty a empty", [(0, "empty"), (0, "a"), (0, "empty")]),
        ("a separators-only b", [(0, "a"), (0, "seps"), (0, "b")]),
        ("b barriers-only b", [(0, "b"), (0, "nops"), (0, "b")]),
        ("a b c a b", [(0, "a"), (0, "b"), (0, "c"), (0, "a"), (0, "b")]),
        ("b five times", [(0, "b")] * 5),
        ("a empty b empty(1 qubit) c", [(0, "a"), (0, "empty"), (0, "b"), (0, "empty1"), (0, "c")]),
        ("c(5 qubits) a(3 qubits)", [(0, "c"), (0, "a")]),
        ("a c one(1 qubit)", [(0, "a"), (0, "c"), (0, "one")]),
        ("two objects: a|b|a|b", [(0, "a"), (1, "b"), (0, "a"), (1, "b")]),
        ("two objects: a|a|b|b", [(0, "a"), (1, "a"), (0, "b"), (1, "b")]),
        ("two objects, five calls", [(0, "a"), (1, "b"), (0, "b"), (1, "a"), (0, "empty")]),
        ("a raising b", [(0, "a"), (0, "bad"), (0, "b")]),
        ("raising a", [(0, "bad"), (0, "a")]),
        ("raising a raising b a", [(0, "bad2"), (0, "a"), (0, "bad"), (0, "b"), (0, "a")]),
        ("two objects: raising|a|a", [(0, "bad"), (1, "a"), (0, "a")]),
        ("QCircuit object grown in place", [(0, "a", S0), (0, "a", dict(slot=0, add=r2_add)), (0, "a", dict(slot=0, add=[G("X", [1])]))]),
        ("two objects, QCircuit object grown in place", [(0, "a", S0), (1, "a", dict(slot=0, add=[G("X", [2])])), (0, "a", S0)]),
        ("result emptied by the caller, same circuit again", [(0, "a", SCR), (0, "a")]),
        ("result emptied by the caller, same QCircuit object again", [(0, "b", dict(slot=0, scribble=True)), (0, "b", S0), (0, "a")]),
        ("two objects: result emptied by the caller", [(0, "a", SCR), (1, "a"), (0, "b")]),
    ]


def history_cases():
    """the same Decompiler object used for 2, 3, 5 circuits in a row, for every run shape: see history_shapes"""
    B = G("Barrier", [])
    out = []
    runs = RUNS + [[G("I", [0]), G("X", [1])], [G("MCtrl", [0, 1, 2], n=2, g="X"), G("CX", [2, 0])]]
    fixed = dict(empty=(3, []), empty1=(1, []), seps=(3, [SEPS[0], SEPS[1]]), nops=(3, [B, B]), one=(1, [G("X", [0])]))
    for ri, r in enumerate(runs):
        r2, r3 = runs[(ri + 3) % len(runs)], runs[(ri + 5) % len(runs)]
        cs = dict(fixed)
        cs["a"] = (3, r)
        cs["b"] = (3, [SEPS[0]] + r2 + [B, SEPS[3]] + r)
        cs["c"] = (5, [G("H", [4])] + remap(r3, (4, 2, 0)) + [G("CZ", [3, 4])] + remap(r, (1, 2, 3)),
                   dict(names=circ.name_schemes(5)[("letters", "reversed-q", "shifted-q")[ri % 3]]) if ri % 2 else None)
        cs["bad"] = (3, r + [SEPS[0], G("X", [3])])       # one good section, then a gate on a qubit that is not there
        cs["bad2"] = (3, [G("CX", [3, 0])])
        for label, steps in history_shapes([SEPS[0]] + r2):
            out.append(mk_history(f"{label} / run shape {ri}", cs, steps))
    # the demo of the missed bug; widths, names, shared gate objects, API-built circuits
    da = (3, [G("X", [0]), G("CX", [0, 1]), G("H", [2]), G("CCX", [0, 1, 2])])
    db = (3, [G("H", [0]), G("CX", [1, 2]), G("X", [1]), B, G("H", [1])])
    out.append(mk_history("demo", dict(a=da, b=db), [(0, "a"), (0, "b")]))
    out.append(mk_history("demo, 5 calls, 2 objects", dict(a=da, b=db), [(0, "a"), (1, "b"), (0, "b"), (1, "a"), (0, "a")]))
    s = circ.with_ids(RUNS[6], 1)
    sh = (3, s + [SEPS[0]] + s + [SEPS[6]] + s)
    sub = dict(n=3, gates=RUNS[9])
    api = api_case(dict(n=5, names=circ.name_schemes(5)["letters"], subs=[sub],
                        steps=[dict(op="append_circuit", sub=0, qubits=[1, 2, 3]), dict(op="gate", g=G("H", [4])),
                               dict(op="append_circuit", sub=0, qubits=[3, 4, 0])]))
    api2 = api_case(dict(n=3, subs=[sub], steps=[dict(op="iadd", sub=0), dict(op="gate", g=SEPS[0]), dict(op="iadd_self")]))
    for n in (10, 11, 16):
        nm = circ.name_schemes(n)
        w1 = (n, [G("X", [n - 1]), G("CX", [n - 1, 2]), G("H", [9]), G("MCX", [2, 3, n - 1, 0], n=3)])
        w2 = (n, remap(RUNS[9], (n - 1, 2, n - 2)) + [G("H", [n - 1])] + remap(RUNS[6], (8, 1, n - 1)), dict(names=nm["words"]))
        cs = dict(a=da, b=db, w1=w1, w2=w2, sh=sh, api=api, api2=api2, one=fixed["one"])
        out.append(mk_history(f"widths {n} 3", cs, [(0, "w1"), (0, "a")]))
        out.append(mk_history(f"widths 3 {n} 1 {n} named 3", cs, [(0, "b"), (0, "w1"), (0, "one"), (0, "w2"), (0, "a")]))
        out.append(mk_history(f"named {n}, shared gate objects, api", cs, [(0, "w2"), (0, "sh"), (0, "api")]))
        out.append(mk_history(f"api circuits and {n} qubits, two objects", cs, [(0, "api"), (1, "api2"), (0, "api2"), (1, "w2"), (0, "api")]))
        out.append(mk_history(f"wide QCircuit object twice, grown ({n})", cs,
                              [(0, "w1", dict(slot=0)), (0, "w1", dict(slot=0)), (0, "w1", dict(slot=0, add=[G("H", [0]), G("X", [n - 1])]))]))
    return out


def random_history_cases(rng, count):
    """random histories: 2..5 calls (2, 3, 5 most often), 1..3 Decompiler objects, circuits from the random
    generators of this file (narrow, shared gate objects, now and then 10..16 qubits / empty / raising), QCircuit
    objects passed again and grown in place, results emptied by the caller"""
    for k in range(count):
        ncalls = rng.choice([2, 2, 3, 3, 3, 4, 5, 5])
        ninst = rng.choice([1, 1, 2, 2, 3])
        ncirc = rng.randint(1, ncalls)
        cs = {}
        for i in range(ncirc):
            x = rng.random()
            if x < 0.08:
                c = (rng.randint(1, 4), [])
            elif x < 0.18:
                n, gs = next(random_cases(rng, 1))
                c = (n, gs[:6] + [G("X", [n])] + gs[6:9])      # a gate on a qubit that is not there: the call raises
            elif x < 0.28:
                c = next(random_wide_cases(rng, 1))
            elif x < 0.45:
                c = next(random_shared_cases(rng, 1))
            else:
                c = next(random_cases(rng, 1))
            cs[i] = c
        steps, used_slots = [], {}
        for j in range(ncalls):
            key = rng.randrange(ncirc) if j >= ncirc else j
            extra = {}
            if rng.random() < 0.3:
                if key in used_slots:
                    extra["slot"] = key
                    if rng.random() < 0.5:
                        n = cs[key][0]
                        extra["add"] = [circ.rand_gate(rng, n, kinds=["X", "CX", "H", "Barrier", "CCX", "T"]) for _ in range(rng.randint(1, 3))]
                else:
                    used_slots[key] = True
                    extra["slot"] = key
            elif key in used_slots and rng.random() < 0.6:
                extra["slot"] = key
            if rng.random() < 0.1:
                extra["scribble"] = True
            steps.append((rng.randrange(ninst), key, extra))
        yield mk_history(f"random {k}", cs, steps)


def container_verdicts(k):
    """the result containers on their own: a new DecompilerResults is empty whatever happened to other ones, holds
    exactly the sections appended to it, in order (len / index / iteration agree).  None or (what, info)"""
    from qlasskit.decompiler import DecompiledSection, DecompilerResults

    before = DecompilerResults()
    r = DecompilerResults()
    secs = [DecompiledSection([("g%d" % i, [i], None)], [], (i, i + 1)) for i in range(k)]
    for s in secs:
        r.append(s)
    after = DecompilerResults()
    for nm, o in (("created before the appends", before), ("created after the appends", after)):
        if len(o) != 0 or list(o) != []:
            return (f"a new DecompilerResults ({nm} to another one) is not empty", dict(len=len(o)))
    if len(r) != k or [id(x) for x in r] != [id(x) for x in secs] or any(r[i] is not secs[i] for i in range(k)):
        return (f"a DecompilerResults that got {k} sections does not hold exactly these, in order", dict(len=len(r)))
    for i, s in enumerate(secs):
        if s.index != (i, i + 1) or len(s.gates) != 1 or s.expressions != []:
            return ("a DecompiledSection does not hold what it was built with", dict(section=i))
    return None


def check_containers(res):
    for k in (0, 1, 2, 3, 5):
        for rep in (1, 2):      # twice: state kept by the class or the module shows at the second round
            case = dict(containers=dict(sections_appended=k, round=rep))
            res.count(case, nontrivial=k > 0, bucket="result-containers")
            try:
                v = container_verdicts(k)
            except Exception as e:  # noqa
                v = (f"using the result containers raised {type(e).__name__}: {e}", {})
            if v is not None:
                res.violation(case, v[0], **v[1])


def run(ctx: Ctx) -> Result:
    res = Result("C11")
    rng = ctx.rng
    res.rule = (
        "systematic: every run shape x every boundary gate x barriers (0..2) at every boundary position on 3 qubits; "
        "all gate strings of length <= L over a 9-letter alphabet (L=5 thorough, 3 quick) and over the 11-letter "
        "alphabet with I and MCtrl(X) (L=4 thorough, 2 quick); random circuits on 1..5 qubits, <=14 gates; "
        "circuits in which one gate object occurs at several positions / in several sections (built gate by gate and through "
        "qc += sub, append_circuit, qc += qc, repeat, +), every run shape on 10/11/12/16 qubits incl. user-chosen qubit "
        "names, random variants of both (wide circuits judged on all assignments of the qubits a section involves); "
        "histories: one Decompiler object used for 2, 3, 5 circuits in a row (same circuit again, same QCircuit object again, "
        "different circuits / qubit counts / names, empty circuit in between, a call that raises in between, QCircuit object "
        "grown in place between calls, result emptied by the caller), two or three Decompiler objects interleaved - every "
        "call judged like a single case, compared with what a new Decompiler() returns, earlier results re-read after every "
        "later call; random histories; "
        "case = (n, gate list) (a call of a history: + history, call number); non-trivial = at least one classical gate "
        "and at least two gates"
    )
    check_batch(ctx, res, boundary_cases(), "boundary")
    check_batch(ctx, res, sharing_cases(), "shared-objects")
    check_batch(ctx, res, wide_cases(), "wide")
    check_containers(res)
    check_histories(ctx, res, history_cases(), "history-calls")
    check_batch(ctx, res, list(strings_cases(alphabet(), 5 if ctx.thorough else 3)), "strings9")
    check_batch(ctx, res, list(strings_cases(alphabet(True), 4 if ctx.thorough else 2)), "strings11")
    check_batch(ctx, res, list(random_cases(rng, 12000 if ctx.thorough else 1500)), "random")
    check_batch(ctx, res, list(random_shared_cases(rng, 3000 if ctx.thorough else 400)), "random-shared")
    check_batch(ctx, res, list(random_api_cases(rng, 1500 if ctx.thorough else 150)), "random-api")
    check_batch(ctx, res, list(random_wide_cases(rng, 1500 if ctx.thorough else 150)), "random-wide")
    check_histories(ctx, res, list(random_history_cases(rng, 2500 if ctx.thorough else 250)), "random-history-calls")
    res.exhaustive = True
    res.notes.append("gate strings over the fixed alphabets enumerated completely up to the stated length; "
                     "boundary patterns enumerated completely; random part sampled")
    res.assumptions.append("sympy's Not/And/Xor constructors preserve meaning (validated: every reported expression is "
                           "evaluated by harness/bexp.eval_json against the harness' own gate simulator)")
    res.assumptions.append("gate tuples are built by QCircuit.append (arity = n_qubits, distinct wires)")
    return res


def witness_fails(ctx: Ctx, f):
    w = f.get("witness", {})
    n, gates = w["n"], w["gates"]
    out = code_decompile(n, gates)
    return judge(n, gates, out) is not None


def replay(ctx: Ctx, payload):
    first = payload.get("first") or {}
    case = first.get("case", {})
    if "containers" in case:
        rc = 0
        for rep in (1, 2):
            v = container_verdicts(case["containers"]["sections_appended"])
            print(f"result containers, {case['containers']['sections_appended']} sections appended, round {rep}:",
                  "as expected" if v is None else v[0])
            rc = rc or (0 if v is None else 1)
        return rc
    if "gates_json" not in case:
        ds = payload.get("correspondence_disagreements") or []
        if ds and "gates_json" in ds[0].get("case", {}):
            case = ds[0]["case"]
        else:
            print("no failing input in this replay file (tie-broken record)")
            return 2
    if "history" in case:
        return replay_history(case["history"])
    n, gates = case["n"], case["gates_json"]
    opts = dict(names=case.get("names"), recipe=case.get("recipe"))
    print("replaying", json.dumps(case.get("gates")), "on", n, "qubits" +
          (", built through the composition API" if opts["recipe"] else "") +
          (f", qubit names {opts['names']}" if opts["names"] else ""))
    if case.get("same_gate_object_as_an_earlier_position"):
        print("positions holding a gate object of an earlier position:", case["same_gate_object_as_an_earlier_position"])
    rc = 0
    for attempt in (1, 2):
        # twice in this process, each time a new circuit and a new Decompiler(): a failure that needs an earlier call
        # in the same process (state kept outside the Decompiler object) shows at the second
        out = code_decompile(n, gates, opts)
        print(f"code (call {attempt} in this process):", json.dumps(canon_out(n, out)))
        v = judge(n, gates, out)
        print("oracle:", "property holds" if v is None else v[0])
        if v is not None:
            print("expected:", json.dumps(v[1]))
            rc = 1
    return rc


def replay_history(h):
    print("replaying the history:", h["label"])
    for i, c in enumerate(h["circuits"]):
        print(f"  circuit {i}: {c['n']} qubits", json.dumps([[d["c"], d["w"]] for d in c["gates"]]),
              ("names " + json.dumps(c["names"])) if c.get("names") else "", "(built through the composition API)" if c.get("recipe") else "")
    calls = run_history(h)
    hv = hist_verdicts(calls)
    rc = 0
    for k, (st, c) in enumerate(zip(h["steps"], calls)):
        print(f"call {k}: Decompiler object {st['inst']}, circuit {st['circ']}" +
              (f", QCircuit object kept in slot {st['slot']}" if st.get("slot") is not None else ", new QCircuit object") +
              (f", after appending {json.dumps([[d['c'], d['w']] for d in st['add']])} to it" if st.get("add") else "") +
              (", the caller empties the result afterwards" if st.get("scribble") else ""))
        print("   code:", json.dumps(canon_out(c["n"], c["out"])))
        v = None if malformed(c["n"], c["gates"]) else judge(c["n"], c["gates"], c["out"])
        print("   oracle:", "gate on a missing qubit, not judged" if malformed(c["n"], c["gates"]) else
              "property holds" if v is None else v[0])
        if v is not None:
            print("   expected:", json.dumps(v[1]))
            rc = 1
        for kk, what, info in hv:
            if kk == k:
                print("   oracle:", what)
                print("   ", json.dumps({a: (canon_out(c["n"], b) if isinstance(b, dict) else b) for a, b in info.items()}))
                rc = 1
    return rc
