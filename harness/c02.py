"""C02 - see harness/compiler_common.py (shared by C02/C03/C06)."""
from . import compiler_common as cc
from .common import Ctx, Result

LEVEL = "proof"


def run(ctx: Ctx) -> Result:
    res = Result("C02")
    return cc.run_compiler_check(ctx, res, "C02")


def witness_fails(ctx: Ctx, f):
    return cc.witness_fails(ctx, f, "C02")


def replay(ctx: Ctx, payload):
    import json

    from . import common
    case = (payload.get("first") or {}).get("case")
    if not case:
        print("nothing to replay (tie-broken report)")
        return 2
    prog = case["program"]
    kind = "src" if isinstance(prog, str) else "defs"
    if kind == "defs":
        prog = dict(name="replay", inputs=prog["inputs"], defs=prog["defs"], rets=prog["rets"])
    code, inputs, ej, rets = cc.compile_both(case["label"], kind, prog, case.get("optimizer"), case.get("uncompute", True))
    if "error" in code:
        print("compiler raised:", code["error"])
        return 0
    j = cc.judge(code, inputs, ej, rets)
    print(json.dumps(j, indent=1))
    bad = {"C02": (not j["mapped"]) or j["wrong"] is not None, "C03": j["dirty"] is not None, "C06": j["xor_bad"] is not None}["C02"]
    return 1 if bad else 0
