"""C12 - the circuit boolean optimizer returns an equivalent, no larger circuit.

Always-on search on the real code: circuits over the library's gate set whose classical sections
permute qubits (3-CX swaps, cycles, swaps mixed with X), compute into occupied qubits
(CCX/MCX chains), cancel to identity or to a few X gates, interleaved with non-classical gates
and barriers; all X/CX/CCX strings up to a length on 3 qubits; random circuits on 1..6 qubits;
circuits compiled from qlasskit programs.  The real `circuit_boolean_optimizer(qc)` is judged by
an oracle written from the property text alone, with the simulators of harness/circ.py: same
number of qubits, every wire inside it, not more gates, same unitary (state-vector simulator,
<= 6 qubits; classical action on every basis state for larger all-classical circuits), the input
circuit deep-equal to what it was and sharing no gate object / wire list with the result.

Correspondence: the run is logged (sections found, the simplified expressions handed to
`exprs_to_quantum`, the ancillas popped, the re-synthesised circuit, every `simplify_logic`
call) and replayed through the Lean model (QV.Model.Decopt = decompiler model + compiler model
+ splice loop) with the active quirks: resulting gate list exact; per section accept/reject,
re-synthesised gate list (canonical), qubit map exact; `custom_simplify_logic2` structurally
against the model given the logged `simplify_logic` table.  The repaired model (no quirks) must
pass the proved-sound validator `validated` on every case (theorem C12_partial then gives the
property for that instance) and the oracle.
"""
from __future__ import annotations

import itertools
import json

from . import bexp, circ
from .common import Ctx, Result
from .compiler_common import canon_gates

LEVEL = "proof"
QUIRK = "spliceIgnoresRename"
MAX_SV = 6       # state-vector oracle up to this many qubits
MAX_CL = 12      # classical oracle (all basis states) up to this many qubits


def G(c, w, n=0, g="", p=None):
    return {"c": c, "n": n, "g": g, "w": list(w), "p": p, "id": 0}


def gkey(d):
    return [d["c"], d["n"] if d["c"] in ("MCX", "MCtrl") else 0, d["g"] if d["c"] == "MCtrl" else "", list(d["w"]),
            d.get("p")]


def short(gates):
    return [[d["c"] + (str(d["n"]) if d["c"] in ("MCX", "MCtrl") else "") + d["g"], d["w"]] + ([d["p"]] if d.get("p") else [])
            for d in gates]


def is_cl(d):
    return d["c"] in ("I", "X", "CX", "CCX", "MCX") or (d["c"] == "MCtrl" and d["g"] == "X")


def is_nop(d):
    return d["c"] in ("Barrier", "NopGate")


def sim_classical(gates, state):
    s = list(state)
    for d in gates:
        if d["c"] == "I" or is_nop(d):
            continue
        w = d["w"]
        if all(s[i] for i in w[:-1]):
            s[w[-1]] = not s[w[-1]]
    return s


# ------------------------------------------------------------------ the real code, logged

def code_optimize(n, gates):
    """run the real circuit_boolean_optimizer on a fresh real circuit; log what the model needs"""
    from qlasskit.decompiler import decopt
    from qlasskit.qcircuit import QCircuitEnhanced

    qc = circ.build_qc(n, gates, share_ids=False)
    before = circ.qc_to_json(qc)
    before_meta = (qc.num_qubits, dict(qc.qubit_map))
    in_ids = set()
    for t in qc.gates:
        in_ids.add(id(t[0]))
        in_ids.add(id(t[1]))
    in_list_id = id(qc.gates)

    log = dict(dc=None, calls=[], simp=[])
    cur = dict(choices=None, depth=0, table=None)
    o_dec, o_e2q, o_simp, o_cs = decopt.Decompiler, decopt.exprs_to_quantum, decopt.simplify_logic, decopt.custom_simplify_logic2
    o_gfa = QCircuitEnhanced.get_free_ancilla

    class Spy(o_dec):
        def decompile(self, q):
            r = super().decompile(q)
            log["dc"] = r
            return r

    def e2q(exprs, symbols, compiler="internal"):
        cur["choices"] = []
        entry = dict(exprs=[(s, e) for s, e in exprs], symbols=list(symbols), choices=cur["choices"])
        log["calls"].append(entry)
        r = o_e2q(exprs=exprs, symbols=symbols, compiler=compiler)
        entry["gates"] = circ.qc_to_json(r)
        entry["qmap"] = [[k, v] for k, v in r.qubit_map.items()]
        entry["num_qubits"] = r.num_qubits
        return r

    def gfa(self):
        r = o_gfa(self)
        if cur["choices"] is not None:
            cur["choices"].append(r)
        return r

    def simp(e, *a, **k):
        r = o_simp(e, *a, **k)
        if cur["table"] is not None:
            cur["table"].append((e, r))
        return r

    def cs(e):
        top = cur["depth"] == 0
        if top:
            cur["table"] = []
        cur["depth"] += 1
        try:
            r = o_cs(e)
        finally:
            cur["depth"] -= 1
        if top:
            log["simp"].append((e, r, cur["table"]))
            cur["table"] = None
        return r

    decopt.Decompiler, decopt.exprs_to_quantum, decopt.simplify_logic, decopt.custom_simplify_logic2 = Spy, e2q, simp, cs
    QCircuitEnhanced.get_free_ancilla = gfa
    out = {}
    try:
        r = decopt.circuit_boolean_optimizer(qc)
        out["gates"] = circ.qc_to_json(r)
        out["num_qubits"] = r.num_qubits
        shared = 0
        for t in r.gates:
            if id(t[0]) in in_ids or id(t[1]) in in_ids:
                shared += 1
        out["shared_objects"] = shared + (1 if id(r.gates) == in_list_id else 0)
        out["same_object"] = r is qc
    except Exception as e:  # noqa
        out["error"] = f"{type(e).__name__}: {e}"
    finally:
        decopt.Decompiler, decopt.exprs_to_quantum, decopt.simplify_logic, decopt.custom_simplify_logic2 = o_dec, o_e2q, o_simp, o_cs
        QCircuitEnhanced.get_free_ancilla = o_gfa
    after = circ.qc_to_json(qc)
    out["input_changed"] = (after != before) or (qc.num_qubits, dict(qc.qubit_map)) != before_meta or id(qc.gates) != in_list_id
    # sections: the k-th call of exprs_to_quantum belongs to reversed(dc)[k]
    secs = []
    unsupported = None
    if log["dc"] is not None:
        rdc = list(reversed(list(log["dc"])))
        for k, s in enumerate(rdc):
            d = dict(start=s.index[0], stop=s.index[1], old=[circ.gate_to_json(g, w, p) for g, w, p in s.gates])
            if k < len(log["calls"]):
                c = log["calls"][k]
                try:
                    d["exprs"] = [[getattr(sym, "name", str(sym)), bexp.to_json(e)] for sym, e in c["exprs"]]
                except ValueError as ex:
                    unsupported = str(ex)
                    d["exprs"] = []
                d["choices"] = list(c["choices"])
                d["symbols"] = c["symbols"]
                if "gates" in c:
                    d["new"] = c["gates"]
                    d["qmap"] = c["qmap"]
                    d["num_qubits"] = c["num_qubits"]
            secs.append(d)
    out["sections"] = list(reversed(secs))
    out["unsupported"] = unsupported
    out["simp"] = log["simp"]
    return out


# ------------------------------------------------------------------ the oracle

def judge(n, gates, out, full=True):
    """None if the observable result satisfies the property on this circuit, else (what, expected)"""
    if "error" in out:
        return ("circuit_boolean_optimizer raised: " + out["error"], dict(gates=short(gates)))
    if out.get("input_changed"):
        return ("the input circuit was modified", dict(gates=short(gates)))
    if out.get("shared_objects") or out.get("same_object"):
        return ("the result shares gate objects / wire lists with the input circuit", dict(shared=out.get("shared_objects")))
    res = out["gates"]
    if out["num_qubits"] != n:
        return (f"result has {out['num_qubits']} qubits, input {n}", dict(num_qubits=n))
    for d in res:
        if any((not isinstance(i, int)) or i < 0 or i >= n for i in d["w"]):
            return ("a gate of the result acts outside the circuit's qubits", dict(num_qubits=n))
    if len(res) > len(gates):
        return (f"result has {len(res)} gates, input {len(gates)}", dict(max_gates=len(gates)))
    if not full:
        return None
    all_cl = all(is_cl(d) or is_nop(d) for d in gates) and all(is_cl(d) or is_nop(d) for d in res)
    if all_cl and n <= MAX_CL:
        for k in range(2 ** n):
            st = [bool((k >> i) & 1) for i in range(n)]
            a, b = sim_classical(gates, st), sim_classical(res, st)
            if a != b:
                return ("result and input act differently on basis state " + "".join("1" if x else "0" for x in st),
                        dict(state=st, input_gives=a, result_gives=b))
        return None
    if n <= MAX_SV:
        ua, ub = circ.unitary(n, gates), circ.unitary(n, res)
        if not circ.mat_close(ua, ub):
            col = next(c for c in range(2 ** n) if any(abs(ua[r][c] - ub[r][c]) >= 1e-9 for r in range(2 ** n)))
            return (f"unitaries differ (column of basis state {col})", dict(column=col))
        return None
    return None  # too large for the oracle (not generated)


# ------------------------------------------------------------------ comparison with the model

def model_request(n, gates, out, quirks):
    secs = [dict(start=s["start"], exprs=s.get("exprs", []), choices=s.get("choices", [])) for s in out.get("sections", [])
            if "exprs" in s]
    return dict(op="c12.optimize", n=n, gates=gates, quirks=quirks, sections=secs)


def code_accepts(s):
    """the code's splice test, recomputed from the logged re-synthesis (for the trigger predicate)"""
    if "new" not in s:
        return False
    used = {i for d in s["new"] for i in d["w"]}
    secq = {i for d in s["old"] for i in d["w"]}
    return len(s["new"]) <= len(s["old"]) and used <= secq


def renamed(n, s):
    qm = {k: v for k, v in s.get("qmap", [])}
    return any(qm.get(f"q{i}") != i for i in range(n))


def compare(n, gates, out, rep):
    """None when model and code agree, else a description"""
    if "driver_error" in rep:
        return "model driver error: " + str(rep["driver_error"])
    if ("error" in out) != ("error" in rep):
        return "one side raises, the other does not"
    if "error" in out:
        return None
    if [gkey(d) for d in out["gates"]] != [gkey(d) for d in rep["gates"]]:
        return "resulting gate lists differ"
    if rep.get("unused_logs"):
        return "the code re-synthesised a section the model does not find"
    if len(rep["sections"]) != len(out["sections"]):
        return "number of sections differs"
    for cs, ms in zip(out["sections"], rep["sections"]):
        if "error" in ms:
            return "model: " + ms["error"]
        if (cs["start"], cs["stop"]) != (ms["start"], ms["stop"]):
            return "section ranges differ"
        if [gkey(d) for d in cs["old"]] != [gkey(d) for d in ms["old"]]:
            return "section gate lists differ"
        if "new" not in cs:
            return "the code did not finish a re-synthesis the model finished"
        if canon_gates(cs["new"]) != canon_gates(ms["new"]):
            return "re-synthesised gate lists differ"
        if cs["qmap"] != ms["qmap"] or cs["num_qubits"] != ms["num_qubits"]:
            return "re-synthesised qubit maps differ"
        if not ms["simp_ok"]:
            return "the simplified expressions of a section are not equivalent to the model's decompiled expressions"
    return None


def simp_requests(out):
    reqs, metas = [], []
    for e, r, table in out.get("simp", []):
        try:
            reqs.append(dict(op="c12.simplify", expr=bexp.to_json(e), table=[[bexp.to_json(a), bexp.to_json(b)] for a, b in table]))
            metas.append((e, r))
        except ValueError:
            continue
    return reqs, metas


def check_simp_oracle(n, s):
    """the assumption on the simplifier, checked independently: the expressions handed to the
    compiler describe the section's gates on every basis state of the qubits they mention"""
    names = [f"q{i}" for i in range(n)]
    ex = {k: e for k, e in s.get("exprs", [])}
    used = sorted({i for d in s["old"] for i in d["w"]})
    for e in ex.values():
        for nm in bexp.syms_json(e):
            if nm not in names:
                return f"unknown symbol {nm}"
            if int(nm[1:]) not in used:
                used.append(int(nm[1:]))
    for k in range(2 ** len(used)):
        st = [False] * n
        for b, i in enumerate(used):
            st[i] = bool((k >> b) & 1)
        fin = sim_classical(s["old"], st)
        env = {names[i]: st[i] for i in range(n)}
        for i in range(n):
            want = fin[i]
            got = bexp.eval_json(ex[names[i]], env) if names[i] in ex else st[i]
            if want != got:
                return f"expression of q{i} wrong on {''.join('1' if x else '0' for x in st)}"
    return None


def active(ctx):
    fs = [f for f in ctx.findings if f.get("status", "open") == "open" and f.get("_active") and f.get("quirk") == QUIRK]
    return ([QUIRK] if fs else []), (fs[0]["id"] if fs else None)


def check_batch(ctx, res, cases, bucket, full=True):
    quirks, fid = active(ctx)
    outs = [code_optimize(n, gates) for n, gates in cases]
    reqs, simp_idx = [], []
    for (n, gates), out in zip(cases, outs):
        reqs.append(model_request(n, gates, out, quirks))
        reqs.append(model_request(n, gates, out, []))
    nmain = len(reqs)
    for i, out in enumerate(outs):
        rq, metas = simp_requests(out)
        simp_idx.append((len(reqs), metas))
        reqs.extend(rq)
    replies = ctx.model(reqs)
    for idx, ((n, gates), out) in enumerate(zip(cases, outs)):
        case = dict(n=n, gates=short(gates), gates_json=gates)
        ncl = sum(1 for d in gates if is_cl(d))
        changed = "gates" in out and [gkey(d) for d in out["gates"]] != [gkey(d) for d in gates]
        res.count(dict(n=n, gates=case["gates"]), nontrivial=(ncl >= 2 and len(gates) >= 2), bucket=bucket)
        key = "changed" if changed else "unchanged"
        res.extra.setdefault("outcomes", {})
        res.extra["outcomes"][key] = res.extra["outcomes"].get(key, 0) + 1
        verdict = judge(n, gates, out, full)
        c_code = dict(error=out["error"]) if "error" in out else dict(gates=short(out["gates"]), num_qubits=out["num_qubits"])
        if out.get("unsupported"):
            res.disagree(case, "expression outside the modelled fragment: " + out["unsupported"])
        for s in out["sections"]:
            if "exprs" in s and not out.get("unsupported"):
                bad = check_simp_oracle(n, s)
                if bad:
                    res.disagree(case, "assumption violated: simplified expressions do not describe the section's gates: " + bad,
                                 code=dict(section=[s["start"], s["stop"]], exprs=s["exprs"]))
        agree = None
        rep_q = rep_n = None
        if replies is not None and not out.get("unsupported"):
            rep_q, rep_n = replies[2 * idx], replies[2 * idx + 1]
            agree = compare(n, gates, out, rep_q)
            if agree is not None:
                res.disagree(case, "model (with the active quirks) and code differ: " + agree, code=c_code,
                             model=dict(error=rep_q.get("error")) if "error" in rep_q or "driver_error" in rep_q
                             else dict(gates=short(rep_q["gates"])))
            # the repaired model: every splice validated (C12_partial applies), and the oracle holds
            if "driver_error" in rep_n:
                res.disagree(case, "model driver error", model=rep_n)
            elif "error" not in rep_n:
                if not rep_n["validated"]:
                    res.disagree(case, "the repaired model splices in a section that fails the validator",
                                 model=dict(gates=short(rep_n["gates"])))
                # hypothesis and conclusion of the proved theorem accepted_xonly / C12_full, per section: the
                # expressions handed to the compiler are keyed by distinct qubit names, and every section the
                # repaired model accepts consists of the X gates of its self-negations q = ~q
                for ms in rep_n["sections"]:
                    if "error" in ms:
                        continue
                    res.extra["sections_seen"] = res.extra.get("sections_seen", 0) + 1
                    if not ms.get("keys_ok"):
                        res.disagree(case, "the expressions handed to the compiler are not keyed by distinct qubit names "
                                           "(hypothesis keysOK of accepted_xonly)", model=dict(section=[ms["start"], ms["stop"]]))
                    if ms["accepted"]:
                        res.extra["sections_accepted"] = res.extra.get("sections_accepted", 0) + 1
                        if ms["new"]:
                            res.extra["sections_accepted_with_gates"] = res.extra.get("sections_accepted_with_gates", 0) + 1
                        if not ms.get("xonly"):
                            res.disagree(case, "the repaired model accepts a re-synthesis that is not the X gates of the "
                                               "section's self-negations (contradicts the proved accepted_xonly)",
                                         model=dict(section=[ms["start"], ms["stop"]], new=short(ms["new"])))
                v_n = judge(n, gates, dict(gates=rep_n["gates"], num_qubits=n), full)
                if v_n is not None:
                    res.disagree(case, "the repaired model violates the oracle: " + v_n[0], model=dict(gates=short(rep_n["gates"])))
            elif "error" not in out:
                res.disagree(case, "the repaired model raises: " + rep_n["error"], code=c_code)
            # custom_simplify_logic2 against the model, given the logged simplify_logic table
            base, metas = simp_idx[idx]
            for k, (e, r) in enumerate(metas):
                mr = replies[base + k]
                if "out" not in mr:
                    res.disagree(case, "model driver error in c12.simplify", model=mr)
                    continue
                rebuilt = bexp.from_json(mr["out"])
                if rebuilt != r:
                    res.disagree(case, "custom_simplify_logic2: model and code differ", code=str(r), model=str(rebuilt),
                                 expected=str(e))
        if verdict is None:
            # (a run can be right as a whole although a splice is wrong: two dropped swaps around a gate
            # that is symmetric in the two qubits cancel - so `validated` is not required here)
            continue
        what, expected = verdict
        attributed = None
        # only a difference in action can be the listed defect (not: exception, modified / aliased input,
        # qubit count, wires outside the circuit, more gates), and only when the quirk model returns
        # exactly the code's gate list and flags a spliced-in renamed section
        action_failure = what.startswith("result and input act differently") or what.startswith("unitaries differ")
        if fid and action_failure and agree is None and rep_q is not None and "error" not in out and "error" not in rep_q:
            trig_code = any(code_accepts(s) and renamed(n, s) for s in out["sections"])
            if trig_code and rep_q.get("triggers") and not rep_q.get("validated"):
                attributed = fid
        if attributed:
            res.known(attributed)
        else:
            res.violation(case, what, code=c_code, expected=expected,
                          model=None if rep_q is None or "gates" not in rep_q else dict(gates=short(rep_q["gates"])))


# ------------------------------------------------------------------ generators

def swap3(a, b):
    return [G("CX", [a, b]), G("CX", [b, a]), G("CX", [a, b])]


SEPS = [G("H", [0]), G("Z", [1]), G("S", [0]), G("T", [2]), G("Y", [1]), G("P", [0], p="0.5"), G("Swap", [0, 1]),
        G("CZ", [0, 2]), G("CP", [1, 2], p="0.25"), G("MCtrl", [0, 1, 2], n=2, g="Z"), G("H", [2])]

SECTIONS = {
    # permutations of qubits
    "swap01": swap3(0, 1), "swap10": swap3(1, 0), "swap02": swap3(0, 2), "swap21": swap3(2, 1),
    "cycle": swap3(0, 1) + swap3(1, 2), "cycle2": swap3(2, 0) + swap3(0, 1),
    "swap+x": swap3(0, 1) + [G("X", [2])], "x+swap": [G("X", [0])] + swap3(1, 2),
    "swap+xin": swap3(0, 1) + [G("X", [0])], "x.swap.x": [G("X", [1])] + swap3(0, 1) + [G("X", [0])],
    "swapswap": swap3(0, 1) + swap3(0, 1), "swap-ccx": [G("CCX", [0, 1, 2])] + swap3(0, 1) + [G("CCX", [0, 1, 2])],
    "swap-barrier": [G("CX", [0, 1]), G("Barrier", []), G("CX", [1, 0]), G("CX", [0, 1])],
    "swap-mcx1": [G("MCX", [0, 1], n=1), G("MCX", [1, 0], n=1), G("MCX", [0, 1], n=1)],
    "swap-mctrl": [G("MCtrl", [0, 1], n=1, g="X"), G("CX", [1, 0]), G("MCtrl", [0, 1], n=1, g="X")],
    # permutations whose RAW section expressions are not bare symbols (they become a relabelling only after
    # simplification): a swap with cancelling X gates interleaved, a swap whose middle CX is split into two
    # Toffolis on q2 / not q2
    "swap-x-interleaved": [G("CX", [1, 0]), G("X", [0]), G("CX", [0, 1]), G("X", [1]), G("CX", [1, 0]), G("X", [0])],
    "swap-x-interleaved2": [G("X", [1]), G("CX", [0, 1]), G("X", [0]), G("CX", [1, 0]), G("X", [1]), G("CX", [0, 1]), G("X", [0]), G("X", [1])],
    "swap-split-toffoli": [G("CX", [0, 1]), G("CCX", [2, 1, 0]), G("X", [2]), G("CCX", [2, 1, 0]), G("X", [2]), G("CX", [0, 1])],
    # computing into occupied qubits
    "ccx": [G("CCX", [0, 1, 2])], "mcx": [G("MCX", [2, 0, 1], n=2)], "cx": [G("CX", [0, 1])],
    "cx-chain": [G("CX", [0, 1]), G("CX", [1, 2]), G("CX", [2, 0])],
    "ccx-chain": [G("CCX", [0, 1, 2]), G("CX", [2, 0]), G("CCX", [1, 2, 0]), G("X", [1])],
    "adder": [G("CCX", [0, 1, 2]), G("CX", [0, 1])],
    "x.cx": [G("X", [0]), G("CX", [0, 1])],
    "mctrlx": [G("MCtrl", [0, 1, 2], n=2, g="X"), G("X", [0])],
    # cancelling
    "xx": [G("X", [0]), G("X", [0])], "cxcx": [G("CX", [0, 1]), G("CX", [0, 1])],
    "ccxccx": [G("CCX", [0, 1, 2]), G("CCX", [1, 0, 2])], "x.cx.x.cx": [G("X", [0]), G("CX", [0, 1]), G("X", [0]), G("CX", [0, 1])],
    "palin": [G("CX", [0, 1]), G("CCX", [0, 1, 2]), G("X", [2]), G("CCX", [0, 1, 2]), G("CX", [0, 1])],
    "ccx.xx.ccx": [G("CCX", [0, 1, 2]), G("X", [0]), G("X", [1]), G("CCX", [0, 1, 2])],
    "xxx": [G("X", [0]), G("X", [1]), G("X", [0]), G("X", [2]), G("X", [1]), G("X", [1])],
    "id": [G("I", [1])], "x.i.x": [G("X", [1]), G("I", [1]), G("X", [1])],
    "test2": [G("X", [2]), G("CX", [1, 0]), G("X", [0]), G("CX", [1, 0]), G("X", [0]), G("X", [1]), G("X", [0]), G("CX", [2, 1])],
}


def systematic_cases():
    B = G("Barrier", [])
    N = G("NopGate", [])
    out = []
    names = list(SECTIONS)
    for nm in names:
        r = SECTIONS[nm]
        # alone, with barriers around, between separators
        for lead in (0, 1):
            for trail in (0, 1, 2):
                out.append((3, [B] * lead + r + [B] * trail))
        for sep in SEPS:
            out.append((3, [sep] + r))
            out.append((3, r + [sep]))
            out.append((3, [sep] + r + [B, sep]))
        # a barrier / nop at every inner position
        for pos in range(1, len(r)):
            out.append((3, r[:pos] + [B] + r[pos:]))
            out.append((3, [SEPS[0]] + r[:pos] + [N, B] + r[pos:] + [B, B, SEPS[1]]))
        # more qubits than the section uses
        out.append((5, r + [G("H", [4])]))
    # two and three sections
    for i, a in enumerate(names):
        for b in (names[(i + 3) % len(names)], names[(i * 7 + 1) % len(names)], "swap01", "x.cx.x.cx"):
            for sep in (SEPS[0], SEPS[6], SEPS[9]):
                out.append((3, SECTIONS[a] + [sep] + SECTIONS[b]))
            out.append((3, SECTIONS[a] + [B, SEPS[3], B] + SECTIONS[b] + [SEPS[4]] + SECTIONS[a]))
    # the repo's own test circuits
    out.append((3, [G("H", [2]), B, G("X", [0]), G("CX", [0, 1]), G("X", [0]), G("CX", [0, 1]), B, G("H", [2]), G("H", [1]),
                    G("H", [0]), B, G("X", [1]), G("CX", [1, 2]), G("X", [1]), G("CX", [1, 2])]))
    # every gate kind alone and next to a section
    kinds = [G("X", [0]), G("Y", [0]), G("Z", [0]), G("H", [0]), G("S", [0]), G("T", [0]), G("I", [0]), G("P", [0], p="0.5"),
             G("Swap", [0, 1]), G("CX", [0, 1]), G("CZ", [0, 1]), G("CP", [0, 1], p="0.25"), G("CCX", [0, 1, 2]),
             G("MCX", [0, 1, 2], n=2), G("MCX", [0], n=0), G("MCtrl", [0, 1, 2], n=2, g="X"), G("MCtrl", [0, 1], n=1, g="Z"),
             G("MCtrl", [1, 0], n=1, g="H"), B, N]
    for k in kinds:
        out.append((3, [k]))
        out.append((3, [k] + swap3(1, 2)))
        out.append((3, [G("X", [2]), G("X", [2])] + [k]))
        out.append((3, [G("X", [2]), k, G("X", [2])]))
    out.append((1, []))
    out.append((2, []))
    return out


def strings_cases(maxlen):
    alpha = [G("X", [a]) for a in range(3)] + [G("CX", [a, b]) for a, b in itertools.permutations(range(3), 2)] + \
            [G("CCX", [c for c in range(3) if c != t] + [t]) for t in range(3)]
    for L in range(1, maxlen + 1):
        for t in itertools.product(range(len(alpha)), repeat=L):
            yield (3, [alpha[i] for i in t])


def perm_section(rng, n):
    """a random permutation of some qubits as 3-CX swaps, possibly mixed with X gates"""
    gs = []
    for _ in range(rng.randint(1, 3)):
        a, b = rng.sample(range(n), 2)
        gs += swap3(a, b)
        if rng.random() < 0.4:
            gs.append(G("X", [rng.randrange(n)]))
    return gs


def cancel_section(rng, n):
    half = [circ.rand_gate(rng, n, classical_only=True) for _ in range(rng.randint(1, 3))]
    mid = [G("X", [rng.randrange(n)])] if rng.random() < 0.5 else []
    return half + mid + half[::-1]


def random_cases(rng, count, max_n):
    kinds_all = ["X", "CX", "CCX", "MCX", "X", "CX", "CCX", "X", "CX", "H", "Z", "Y", "S", "T", "P", "CP", "CZ", "Swap",
                 "MCtrlZ", "MCtrlX", "Barrier", "I"]
    kinds_xcx = ["X", "CX", "CX", "CX"]
    for k in range(count):
        mode = k % 6
        if mode in (0, 1):
            n = rng.randint(1, max_n)
            yield (n, circ.rand_circuit(rng, n, rng.randint(1, 12), kinds=kinds_all))
        elif mode == 2:
            n = rng.randint(2, 4)
            yield (n, circ.rand_circuit(rng, n, rng.randint(3, 9), kinds=kinds_xcx))
        elif mode == 3:
            n = rng.randint(2, min(5, max_n))
            gs = []
            for _ in range(rng.randint(1, 3)):
                gs += perm_section(rng, n) if rng.random() < 0.6 else cancel_section(rng, n)
                if rng.random() < 0.3:
                    gs.append(G("Barrier", []))
                gs.append(circ.rand_gate(rng, n, kinds=["H", "Z", "S", "T", "Swap", "CZ", "Y"]))
            if rng.random() < 0.5:
                gs.pop()
            yield (n, gs)
        elif mode == 4:
            n = rng.randint(2, min(5, max_n))
            gs = circ.rand_circuit(rng, n, rng.randint(0, 4), kinds=kinds_all) + cancel_section(rng, n) + \
                circ.rand_circuit(rng, n, rng.randint(0, 4), kinds=kinds_all)
            yield (n, gs)
        else:
            n = rng.randint(3, min(6, max_n))
            yield (n, circ.rand_circuit(rng, n, rng.randint(4, 14), classical_only=True))


def compiled_cases(ctx, count):
    """circuits of compiled qlasskit programs (all classical, up to MAX_CL qubits)"""
    from . import progs

    out = []
    tries = 0
    while len(out) < count and tries < count * 6:
        tries += 1
        k = ctx.rng.randrange(10 ** 6)
        try:
            src = progs.gen_bool_program(ctx.rng, k) if tries % 2 else progs.gen_int_program(ctx.rng, k, max_bits=6)
            if isinstance(src, tuple):
                src = src[0]
            from qlasskit import qlassf

            qf = qlassf(src, to_compile=True)
            qc = qf.circuit()
        except Exception:  # noqa
            continue
        if qc.num_qubits > MAX_CL or qc.num_gates > 60:
            continue
        out.append((qc.num_qubits, [dict(d, id=0) for d in circ.qc_to_json(qc)]))
    return out


def run(ctx: Ctx) -> Result:
    res = Result("C12")
    rng = ctx.rng
    res.rule = (
        "systematic: every section shape (qubit permutations as 3-CX swaps and cycles, computing into occupied qubits, "
        "cancelling runs) alone / between every separator gate / with a barrier at every inner position / paired with "
        "other sections; every gate kind alone and next to a section; all X/CX/CCX strings of length <= L on 3 qubits "
        "(L=4 thorough, 3 quick); random circuits over the full gate set on 1..6 qubits, random permutation / cancelling "
        "sections between separators, compiled programs; case = (n, gate list); non-trivial = at least two classical gates"
    )
    check_batch(ctx, res, systematic_cases(), "systematic")
    check_batch(ctx, res, list(strings_cases(4 if ctx.thorough else 3)), "strings12")
    rc = list(random_cases(rng, 24000 if ctx.thorough else 2400, MAX_SV if ctx.thorough else 5))
    for i in range(0, len(rc), 2000):
        check_batch(ctx, res, rc[i:i + 2000], "random")
    check_batch(ctx, res, compiled_cases(ctx, 150 if ctx.thorough else 25), "compiled")
    res.exhaustive = True
    res.notes.append("X/CX/CCX strings on 3 qubits enumerated completely up to the stated length; section patterns "
                     "enumerated completely; random part sampled")
    res.assumptions.append("sympy simplify_logic and the And/Or/Not/Xor constructors preserve meaning (hypotheses of "
                           "custom_simplify_preserves; validated: the expressions handed to the compiler are evaluated "
                           "against the harness' own gate simulator for every section, and by the Lean model against its "
                           "own decompiled expressions)")
    res.assumptions.append("gate tuples are built by QCircuit.append (arity = n_qubits, distinct wires)")
    res.assumptions.append("X/CX/CCX/MCX/MCtrl(X) permute basis states as applyClassical says, I and barriers are the "
                           "identity (SemLaws); all other gates arbitrary")
    res.notes.append("C12_full (= C12_statement) is proved: every re-synthesis the repaired splice test accepts consists of the "
                     "X gates of self-negations (accepted_xonly, from the compiler model) and such a splice keeps the action "
                     "(xonly_splice_ok); its hypothesis keysOK and its conclusion xonly are re-checked on every section of every "
                     "case, next to the validator of C12_partial")
    return res


def witness_fails(ctx: Ctx, f):
    w = f.get("witness", {})
    n, gates = w["n"], w["gates"]
    out = code_optimize(n, gates)
    return judge(n, gates, out) is not None


def replay(ctx: Ctx, payload):
    first = payload.get("first") or {}
    case = first.get("case", {})
    if "gates_json" not in case:
        ds = payload.get("correspondence_disagreements") or []
        if ds and "gates_json" in ds[0].get("case", {}):
            case = ds[0]["case"]
        else:
            print("no failing input in this replay file (tie-broken record)")
            return 2
    n, gates = case["n"], case["gates_json"]
    print("replaying", json.dumps(short(gates)), "on", n, "qubits")
    out = code_optimize(n, gates)
    print("code:", json.dumps(dict(error=out["error"]) if "error" in out else dict(gates=short(out["gates"]), num_qubits=out["num_qubits"])))
    v = judge(n, gates, out)
    print("oracle:", "property holds" if v is None else v[0])
    if v is not None:
        print("expected:", json.dumps(v[1], default=str))
    return 0 if v is None else 1
