"""C12 - the circuit boolean optimizer returns an equivalent, no larger circuit.

Always-on search on the real code: circuits over the library's gate set whose classical sections
permute qubits (3-CX swaps, cycles, swaps mixed with X), compute into occupied qubits
(CCX/MCX chains), cancel to identity or to a few X gates, interleaved with non-classical gates
and barriers; all X/CX/CCX strings up to a length on 3 qubits; random circuits on 1..6 qubits;
circuits compiled from qlasskit programs.  The real `circuit_boolean_optimizer(qc)` is judged by
an oracle written from the property text alone, with the simulators of harness/circ.py: same
number of qubits, every wire inside it, not more gates, same unitary (state-vector simulator,
<= 6 qubits; classical action on every basis state for larger all-classical circuits), the input
circuit deep-equal to what it was and sharing no gate object / wire list with the result.
Wider circuits with non-classical gates (`judge_wide`): the non-classical gates of the result must be those of the
input, in order, and every classical stretch between them must have the input stretch's action on every assignment
of the qubits the two touch (more than 12: a fixed sample) - this implies equal unitaries; a dense pseudo-random
state is pushed through both circuits as well where that is cheap.

Gate OBJECTS shared between positions / sections (`qc += sub` twice, append_circuit twice, `qc += qc`: equal
applied-gate tuples at several positions) are built gate by gate (equal JSON id > 0 = one object) and through the
real composition API (`circ.build_api`): `sharing_cases`, `random_shared_cases`, `random_api_cases`.  Circuits on
10/11/12/16 qubits (from 11 on the textual order of q0..q{n-1} is not the index order) and circuits with
user-chosen qubit names: `wide_cases`, `random_wide_cases`.

HISTORIES (`history_cases`, `random_history_cases`): the optimizer called 2, 3, 5 times in one process - same circuit /
same QCircuit object again, grown in place, other circuits / qubit counts / names, an empty circuit in between, a
result optimised again, a result rewritten by the caller.  Every call is judged and replayed through the model like a
single case, must return what the same call returns on its own, and the input and result objects of every earlier
call are read again after every later call and must not have changed.

Correspondence: the run is logged (sections found, the simplified expressions handed to
`exprs_to_quantum`, the ancillas popped, the re-synthesised circuit, every `simplify_logic`
call) and replayed through the Lean model (QV.Model.Decopt = decompiler model + compiler model
+ splice loop) with the active quirks: resulting gate list exact; per section accept/reject,
re-synthesised gate list (canonical), qubit map exact; `custom_simplify_logic2` structurally
against the model given the logged `simplify_logic` table.  The repaired model (no quirks) must
pass the proved-sound validator `validated` on every case (theorem C12_partial then gives the
property for that instance) and the oracle.
"""
from __future__ import annotations

import itertools
import json
import random

from . import bexp, circ
from .common import Ctx, Result
from .compiler_common import canon_gates

LEVEL = "proof"
QUIRK = "spliceIgnoresRename"
MAX_SV = 6       # state-vector oracle (whole unitary) up to this many qubits
MAX_CL = 12      # classical oracle (all basis states) up to this many qubits
NARROW = 10      # model side: per-section validator / expression check on the involved qubits from this width on
EXH_BITS = 12    # wider circuits: all assignments of the qubits a classical stretch touches, when at most so many
SV_WORK = 40000  # wider circuits with non-classical gates: one dense pseudo-random state is pushed through both
                 # circuits when 2^n * (number of gates) stays below this


def G(c, w, n=0, g="", p=None):
    return {"c": c, "n": n, "g": g, "w": list(w), "p": p, "id": 0}


def gkey(d):
    return [d["c"], d["n"] if d["c"] in ("MCX", "MCtrl") else 0, d["g"] if d["c"] == "MCtrl" else "", list(d["w"]),
            d.get("p")]


def short(gates):
    return [[d["c"] + (str(d["n"]) if d["c"] in ("MCX", "MCtrl") else "") + d["g"], d["w"]] + ([d["p"]] if d.get("p") else [])
            for d in gates]


def is_cl(d):
    return d["c"] in ("I", "X", "CX", "CCX", "MCX") or (d["c"] == "MCtrl" and d["g"] == "X")


def is_nop(d):
    return d["c"] in ("Barrier", "NopGate")


def sim_classical(gates, state):
    s = list(state)
    for d in gates:
        if d["c"] == "I" or is_nop(d):
            continue
        w = d["w"]
        if all(s[i] for i in w[:-1]):
            s[w[-1]] = not s[w[-1]]
    return s


def compile_cl(gates):
    """classical gates as (control mask, target bit) pairs over basis states written as integers (bit i = qubit i)"""
    out = []
    for d in gates:
        if d["c"] == "I" or is_nop(d):
            continue
        w = d["w"]
        out.append((sum(1 << i for i in w[:-1]), 1 << w[-1]))
    return out


def run_cl(comp, k):
    for cm, tb in comp:
        if k & cm == cm:
            k ^= tb
    return k


def bits(k, n):
    return [bool((k >> i) & 1) for i in range(n)]


def bitstr(k, n):
    return "".join("1" if (k >> i) & 1 else "0" for i in range(n))


# ------------------------------------------------------------------ the real code, logged

def code_optimize(n, gates, opts=None, qc=None, keep=None):
    """run the real circuit_boolean_optimizer on a fresh real circuit; log what the model needs.
    The circuit is built gate by gate (equal id > 0 = the same gate object at several positions, `names` = user-chosen
    qubit names) or, when the case carries a recipe, through the library's own composition API.
    A history passes the QCircuit object itself (`qc`, whose gate list the harness denotes as `gates`) and a dict
    `keep` that receives the input and the result object, to be read again after later calls"""
    from qlasskit.decompiler import decopt
    from qlasskit.qcircuit import QCircuitEnhanced

    opts = opts or {}
    if qc is not None:
        pass
    elif opts.get("recipe"):
        qc = circ.build_api(opts["recipe"])
    else:
        qc = circ.build_qc(n, gates, share_ids=True, names=opts.get("names"))
    if keep is not None:
        keep["qc"] = qc
    before = circ.qc_to_json(qc)
    before_meta = (qc.num_qubits, dict(qc.qubit_map))
    in_ids = set()
    for t in qc.gates:
        in_ids.add(id(t[0]))
        in_ids.add(id(t[1]))
    in_list_id = id(qc.gates)

    log = dict(dc=None, calls=[], simp=[])
    cur = dict(choices=None, depth=0, table=None)
    o_dec, o_e2q, o_simp, o_cs = decopt.Decompiler, decopt.exprs_to_quantum, decopt.simplify_logic, decopt.custom_simplify_logic2
    o_gfa = QCircuitEnhanced.get_free_ancilla

    class Spy(o_dec):
        def decompile(self, q):
            r = super().decompile(q)
            log["dc"] = r
            return r

    def e2q(exprs, symbols, compiler="internal"):
        cur["choices"] = []
        entry = dict(exprs=[(s, e) for s, e in exprs], symbols=list(symbols), choices=cur["choices"])
        log["calls"].append(entry)
        r = o_e2q(exprs=exprs, symbols=symbols, compiler=compiler)
        entry["gates"] = circ.qc_to_json(r)
        entry["qmap"] = [[k, v] for k, v in r.qubit_map.items()]
        entry["num_qubits"] = r.num_qubits
        return r

    def gfa(self):
        r = o_gfa(self)
        if cur["choices"] is not None:
            cur["choices"].append(r)
        return r

    def simp(e, *a, **k):
        r = o_simp(e, *a, **k)
        if cur["table"] is not None:
            cur["table"].append((e, r))
        return r

    def cs(e):
        top = cur["depth"] == 0
        if top:
            cur["table"] = []
        cur["depth"] += 1
        try:
            r = o_cs(e)
        finally:
            cur["depth"] -= 1
        if top:
            log["simp"].append((e, r, cur["table"]))
            cur["table"] = None
        return r

    decopt.Decompiler, decopt.exprs_to_quantum, decopt.simplify_logic, decopt.custom_simplify_logic2 = Spy, e2q, simp, cs
    QCircuitEnhanced.get_free_ancilla = gfa
    out = {}
    try:
        r = decopt.circuit_boolean_optimizer(qc)
        if keep is not None:
            keep["r"] = r
        out["gates"] = circ.qc_to_json(r)
        out["num_qubits"] = r.num_qubits
        shared = 0
        for t in r.gates:
            if id(t[0]) in in_ids or id(t[1]) in in_ids:
                shared += 1
        out["shared_objects"] = shared + (1 if id(r.gates) == in_list_id else 0)
        out["same_object"] = r is qc
    except Exception as e:  # noqa
        out["error"] = f"{type(e).__name__}: {e}"
    finally:
        decopt.Decompiler, decopt.exprs_to_quantum, decopt.simplify_logic, decopt.custom_simplify_logic2 = o_dec, o_e2q, o_simp, o_cs
        QCircuitEnhanced.get_free_ancilla = o_gfa
    after = circ.qc_to_json(qc)
    out["input_changed"] = (after != before) or (qc.num_qubits, dict(qc.qubit_map)) != before_meta or id(qc.gates) != in_list_id
    # sections: the k-th call of exprs_to_quantum belongs to reversed(dc)[k]
    secs = []
    unsupported = None
    if log["dc"] is not None:
        rdc = list(reversed(list(log["dc"])))
        for k, s in enumerate(rdc):
            d = dict(start=s.index[0], stop=s.index[1], old=[circ.gate_to_json(g, w, p) for g, w, p in s.gates])
            if k < len(log["calls"]):
                c = log["calls"][k]
                try:
                    d["exprs"] = [[getattr(sym, "name", str(sym)), bexp.to_json(e)] for sym, e in c["exprs"]]
                except ValueError as ex:
                    unsupported = str(ex)
                    d["exprs"] = []
                d["choices"] = list(c["choices"])
                d["symbols"] = c["symbols"]
                if "gates" in c:
                    d["new"] = c["gates"]
                    d["qmap"] = c["qmap"]
                    d["num_qubits"] = c["num_qubits"]
            secs.append(d)
    out["sections"] = list(reversed(secs))
    out["unsupported"] = unsupported
    out["simp"] = log["simp"]
    return out


# ------------------------------------------------------------------ the oracle

def judge(n, gates, out, full=True):
    """None if the observable result satisfies the property on this circuit, else (what, expected)"""
    if "error" in out:
        return ("circuit_boolean_optimizer raised: " + out["error"], dict(gates=short(gates)))
    if out.get("input_changed"):
        return ("the input circuit was modified", dict(gates=short(gates)))
    if out.get("shared_objects") or out.get("same_object"):
        return ("the result shares gate objects / wire lists with the input circuit", dict(shared=out.get("shared_objects")))
    res = out["gates"]
    if out["num_qubits"] != n:
        return (f"result has {out['num_qubits']} qubits, input {n}", dict(num_qubits=n))
    for d in res:
        if any((not isinstance(i, int)) or i < 0 or i >= n for i in d["w"]):
            return ("a gate of the result acts outside the circuit's qubits", dict(num_qubits=n))
    if len(res) > len(gates):
        return (f"result has {len(res)} gates, input {len(gates)}", dict(max_gates=len(gates)))
    if not full:
        return None
    all_cl = all(is_cl(d) or is_nop(d) for d in gates) and all(is_cl(d) or is_nop(d) for d in res)
    if all_cl and n <= MAX_CL:
        bad = differ_on(n, gates, res, sorted({i for d in gates + res for i in d["w"]}))
        if bad is not None:
            return ("result and input act differently on basis state " + bitstr(bad, n),
                    dict(state=bits(bad, n), input_gives=sim_classical(gates, bits(bad, n)),
                         result_gives=sim_classical(res, bits(bad, n))))
        return None
    if n <= MAX_SV:
        ua, ub = circ.unitary(n, gates), circ.unitary(n, res)
        if not circ.mat_close(ua, ub):
            col = next(c for c in range(2 ** n) if any(abs(ua[r][c] - ub[r][c]) >= 1e-9 for r in range(2 ** n)))
            return (f"unitaries differ (column of basis state {col})", dict(column=col))
        return None
    return judge_wide(n, gates, res)


def stretches(gates):
    """split at the gates that are neither classical nor no-ops: (separators, classical stretches between them)"""
    seps, segs, cur = [], [], []
    for d in gates:
        if is_cl(d) or is_nop(d):
            cur.append(d)
        else:
            seps.append(d)
            segs.append(cur)
            cur = []
    segs.append(cur)
    return seps, segs


def keys_over(n, used):
    """basis states (as integers) over the qubits `used`, the others 0: all of them, or - more than EXH_BITS qubits -
    0..0, 1..1, every state of weight 1 / co-weight 1 and 300 fixed pseudo-random ones"""
    m = len(used)
    if m <= EXH_BITS:
        ks = range(2 ** m)
    else:
        r = random.Random(f"{n}:{used}")
        ks = [0, 2 ** m - 1] + [1 << i for i in range(m)] + [(2 ** m - 1) ^ (1 << i) for i in range(m)] + \
             [r.getrandbits(m) for _ in range(300)]
    if used == list(range(m)):
        yield from ks
        return
    for k in ks:
        v = 0
        for b, i in enumerate(used):
            if (k >> b) & 1:
                v |= 1 << i
        yield v


def states_over(n, used):
    for k in keys_over(n, used):
        yield bits(k, n)


def differ_on(n, a, b, used):
    """first basis state over the qubits `used` (the qubits the two classical gate lists touch; no gate can depend on
    or change another one) on which the lists act differently, or None"""
    ca, cb = compile_cl(a), compile_cl(b)
    for k in keys_over(n, used):
        if run_cl(ca, k) != run_cl(cb, k):
            return k
    return None


def judge_wide(n, gates, res):
    """circuits too wide for the whole unitary: the gates that are neither classical nor no-ops must be the same, in
    the same order, and every classical stretch between them must act as the input's stretch does, on every
    assignment of the qubits the two touch (more than EXH_BITS qubits: 0..0, 1..1, weight 1, co-weight 1 and 300
    fixed pseudo-random states).  This implies equal unitaries.  Where affordable a dense pseudo-random state is
    pushed through both circuits as well."""
    sa, ga = stretches(gates)
    sb, gb = stretches(res)
    if [gkey(d) for d in sa] != [gkey(d) for d in sb]:
        return ("the non-classical gates of the result are not those of the input, in order",
                dict(non_classical=short(sa), result_has=short(sb)))
    for k, (a, b) in enumerate(zip(ga, gb)):
        if [gkey(d) for d in a if not is_nop(d)] == [gkey(d) for d in b if not is_nop(d)]:
            continue
        bad = differ_on(n, a, b, sorted({i for d in a + b for i in d["w"]}))
        if bad is not None:
            st = bits(bad, n)
            return ("result and input act differently on basis state " + bitstr(bad, n) +
                    (f" (classical stretch {k}, between the non-classical gates)" if sa else ""),
                    dict(state=st, input_gives=sim_classical(a, st), result_gives=sim_classical(b, st),
                         stretch=short(a), result_stretch=short(b)))
    if sa and 2 ** n * (len(gates) + len(res)) <= SV_WORK:
        r = random.Random(f"sv{n}")
        st = [complex(r.uniform(-1, 1), r.uniform(-1, 1)) for _ in range(2 ** n)]
        va, vb = circ.run_sv(n, gates, st), circ.run_sv(n, res, st)
        if any(abs(x - y) >= 1e-9 for x, y in zip(va, vb)):
            return ("unitaries differ (a dense test state is mapped differently)", dict())
    return None


# ------------------------------------------------------------------ comparison with the model

def model_request(n, gates, out, quirks):
    secs = [dict(start=s["start"], exprs=s.get("exprs", []), choices=s.get("choices", [])) for s in out.get("sections", [])
            if "exprs" in s]
    # from NARROW qubits on the model's per-section checks run on the qubits a section involves (see QV/Drive/C12.lean)
    return dict(op="c12.optimize", n=n, gates=gates, quirks=quirks, sections=secs, narrow=(n >= NARROW))


def code_accepts(s):
    """the code's splice test, recomputed from the logged re-synthesis (for the trigger predicate)"""
    if "new" not in s:
        return False
    used = {i for d in s["new"] for i in d["w"]}
    secq = {i for d in s["old"] for i in d["w"]}
    return len(s["new"]) <= len(s["old"]) and used <= secq


def renamed(n, s):
    qm = {k: v for k, v in s.get("qmap", [])}
    return any(qm.get(f"q{i}") != i for i in range(n))


def compare(n, gates, out, rep):
    """None when model and code agree, else a description"""
    if "driver_error" in rep:
        return "model driver error: " + str(rep["driver_error"])
    if ("error" in out) != ("error" in rep):
        return "one side raises, the other does not"
    if "error" in out:
        return None
    if [gkey(d) for d in out["gates"]] != [gkey(d) for d in rep["gates"]]:
        return "resulting gate lists differ"
    if rep.get("unused_logs"):
        return "the code re-synthesised a section the model does not find"
    if len(rep["sections"]) != len(out["sections"]):
        return "number of sections differs"
    for cs, ms in zip(out["sections"], rep["sections"]):
        if "error" in ms:
            return "model: " + ms["error"]
        if (cs["start"], cs["stop"]) != (ms["start"], ms["stop"]):
            return "section ranges differ"
        if [gkey(d) for d in cs["old"]] != [gkey(d) for d in ms["old"]]:
            return "section gate lists differ"
        if "new" not in cs:
            return "the code did not finish a re-synthesis the model finished"
        if canon_gates(cs["new"]) != canon_gates(ms["new"]):
            return "re-synthesised gate lists differ"
        if cs["qmap"] != ms["qmap"] or cs["num_qubits"] != ms["num_qubits"]:
            return "re-synthesised qubit maps differ"
        if not ms["simp_ok"]:
            return "the simplified expressions of a section are not equivalent to the model's decompiled expressions"
    return None


def simp_requests(out):
    reqs, metas = [], []
    for e, r, table in out.get("simp", []):
        try:
            reqs.append(dict(op="c12.simplify", expr=bexp.to_json(e), table=[[bexp.to_json(a), bexp.to_json(b)] for a, b in table]))
            metas.append((e, r))
        except ValueError:
            continue
    return reqs, metas


def check_simp_oracle(n, s):
    """the assumption on the simplifier, checked independently: the expressions handed to the
    compiler describe the section's gates on every basis state of the qubits they mention"""
    names = [f"q{i}" for i in range(n)]
    ex = {k: e for k, e in s.get("exprs", [])}
    used = {i for d in s["old"] for i in d["w"]}
    for k, e in ex.items():
        for nm in [k] + list(bexp.syms_json(e)):
            if nm not in names:
                return f"unknown symbol {nm}"
            used.add(int(nm[1:]))
    used = sorted(used)
    comp = compile_cl(s["old"])
    for k in keys_over(n, used):
        fin = run_cl(comp, k)
        env = {names[i]: bool((k >> i) & 1) for i in used}
        for i in used:
            want = bool((fin >> i) & 1)
            got = bexp.eval_json(ex[names[i]], env) if names[i] in ex else env[names[i]]
            if want != got:
                return f"expression of q{i} wrong on {bitstr(k, n)}"
    return None


def active(ctx):
    fs = [f for f in ctx.findings if f.get("status", "open") == "open" and f.get("_active") and f.get("quirk") == QUIRK]
    return ([QUIRK] if fs else []), (fs[0]["id"] if fs else None)


def check_batch(ctx, res, cases, bucket, full=True, outs=None, wrap=None):
    """`outs`: the code's logged runs when they were made elsewhere (the calls of a history), `wrap[i]`: what to add
    to the i-th case (history, call number)"""
    quirks, fid = active(ctx)
    cases = [c if len(c) == 3 else (c[0], c[1], None) for c in cases]
    optss = [c[2] for c in cases]
    cases = [(c[0], c[1]) for c in cases]
    if outs is None:
        outs = [code_optimize(n, gates, opts) for (n, gates), opts in zip(cases, optss)]
    reqs, simp_idx = [], []
    for (n, gates), out in zip(cases, outs):
        reqs.append(model_request(n, gates, out, quirks))
        if quirks:
            reqs.append(model_request(n, gates, out, []))
    step = 2 if quirks else 1       # no active quirk: the repaired model is the model of the code as it is
    nmain = len(reqs)
    for i, out in enumerate(outs):
        rq, metas = simp_requests(out)
        simp_idx.append((len(reqs), metas))
        reqs.extend(rq)
    replies = ctx.model(reqs)
    for idx, ((n, gates), out) in enumerate(zip(cases, outs)):
        case = dict(n=n, gates=short(gates), gates_json=gates)
        opts = optss[idx]
        nshared = circ.shared_positions(gates)
        if nshared:
            case["same_gate_object_as_an_earlier_position"] = [i for i, d in enumerate(gates) if d.get("id") and
                                                               any(e.get("id") == d["id"] for e in gates[:i])]
            res.extra["cases_with_shared_gate_objects"] = res.extra.get("cases_with_shared_gate_objects", 0) + 1
        if n >= 10:
            res.extra["cases_on_10_or_more_qubits"] = res.extra.get("cases_on_10_or_more_qubits", 0) + 1
        if opts:
            if opts.get("names"):
                case["names"] = opts["names"]
            if opts.get("recipe"):
                case["recipe"] = opts["recipe"]
                res.extra["cases_built_through_the_api"] = res.extra.get("cases_built_through_the_api", 0) + 1
            if opts.get("api_mismatch"):
                res.disagree(case, "the circuit the library's composition API builds is not the gate list the recipe denotes",
                             code=opts["api_mismatch"])
        ncl = sum(1 for d in gates if is_cl(d))
        changed = "gates" in out and [gkey(d) for d in out["gates"]] != [gkey(d) for d in gates]
        pre = ""
        if wrap is not None:
            case.update(wrap[idx])
            pre = f"call {wrap[idx]['call']} of the history: "
            res.count(dict(history=wrap[idx]["history"]["label"], call=wrap[idx]["call"], n=n, gates=case["gates"]),
                      nontrivial=(ncl >= 2 and len(gates) >= 2), bucket=bucket)
        else:
            res.count({k: v for k, v in case.items() if k != "gates_json"} if (opts or nshared) else dict(n=n, gates=case["gates"]),
                      nontrivial=(ncl >= 2 and len(gates) >= 2), bucket=bucket)
        key = "changed" if changed else "unchanged"
        res.extra.setdefault("outcomes", {})
        res.extra["outcomes"][key] = res.extra["outcomes"].get(key, 0) + 1
        verdict = judge(n, gates, out, full)
        c_code = dict(error=out["error"]) if "error" in out else dict(gates=short(out["gates"]), num_qubits=out["num_qubits"])
        if out.get("unsupported"):
            res.disagree(case, "expression outside the modelled fragment: " + out["unsupported"])
        for s in out["sections"]:
            if "exprs" in s and not out.get("unsupported"):
                bad = check_simp_oracle(n, s)
                if bad:
                    res.disagree(case, "assumption violated: simplified expressions do not describe the section's gates: " + bad,
                                 code=dict(section=[s["start"], s["stop"]], exprs=s["exprs"]))
        agree = None
        rep_q = rep_n = None
        if replies is not None and not out.get("unsupported"):
            rep_q, rep_n = replies[step * idx], replies[step * idx + step - 1]
            agree = compare(n, gates, out, rep_q)
            if agree is not None:
                res.disagree(case, "model (with the active quirks) and code differ: " + agree, code=c_code,
                             model=dict(error=rep_q.get("error")) if "error" in rep_q or "driver_error" in rep_q
                             else dict(gates=short(rep_q["gates"])))
            # the repaired model: every splice validated (C12_partial applies), and the oracle holds
            if "driver_error" in rep_n:
                res.disagree(case, "model driver error", model=rep_n)
            elif "error" not in rep_n:
                if not rep_n["validated"]:
                    res.disagree(case, "the repaired model splices in a section that fails the validator",
                                 model=dict(gates=short(rep_n["gates"])))
                # hypothesis and conclusion of the proved theorem accepted_xonly / C12_full, per section: the
                # expressions handed to the compiler are keyed by distinct qubit names, and every section the
                # repaired model accepts consists of the X gates of its self-negations q = ~q
                for ms in rep_n["sections"]:
                    if "error" in ms:
                        continue
                    res.extra["sections_seen"] = res.extra.get("sections_seen", 0) + 1
                    if not ms.get("keys_ok"):
                        res.disagree(case, "the expressions handed to the compiler are not keyed by distinct qubit names "
                                           "(hypothesis keysOK of accepted_xonly)", model=dict(section=[ms["start"], ms["stop"]]))
                    if ms["accepted"]:
                        res.extra["sections_accepted"] = res.extra.get("sections_accepted", 0) + 1
                        if ms["new"]:
                            res.extra["sections_accepted_with_gates"] = res.extra.get("sections_accepted_with_gates", 0) + 1
                        if not ms.get("xonly"):
                            res.disagree(case, "the repaired model accepts a re-synthesis that is not the X gates of the "
                                               "section's self-negations (contradicts the proved accepted_xonly)",
                                         model=dict(section=[ms["start"], ms["stop"]], new=short(ms["new"])))
                if verdict is None and [gkey(d) for d in rep_n["gates"]] == [gkey(d) for d in out["gates"]]:
                    v_n = None          # the gate list the code returned, which the oracle has just accepted
                else:
                    v_n = judge(n, gates, dict(gates=rep_n["gates"], num_qubits=n), full)
                if v_n is not None:
                    res.disagree(case, "the repaired model violates the oracle: " + v_n[0], model=dict(gates=short(rep_n["gates"])))
            elif "error" not in out:
                res.disagree(case, "the repaired model raises: " + rep_n["error"], code=c_code)
            # custom_simplify_logic2 against the model, given the logged simplify_logic table
            base, metas = simp_idx[idx]
            for k, (e, r) in enumerate(metas):
                mr = replies[base + k]
                if "out" not in mr:
                    res.disagree(case, "model driver error in c12.simplify", model=mr)
                    continue
                rebuilt = bexp.from_json(mr["out"])
                if rebuilt != r:
                    res.disagree(case, "custom_simplify_logic2: model and code differ", code=str(r), model=str(rebuilt),
                                 expected=str(e))
        if verdict is None:
            # (a run can be right as a whole although a splice is wrong: two dropped swaps around a gate
            # that is symmetric in the two qubits cancel - so `validated` is not required here)
            continue
        what, expected = verdict
        attributed = None
        # only a difference in action can be the listed defect (not: exception, modified / aliased input,
        # qubit count, wires outside the circuit, more gates), and only when the quirk model returns
        # exactly the code's gate list and flags a spliced-in renamed section
        action_failure = what.startswith("result and input act differently") or what.startswith("unitaries differ")
        if fid and action_failure and agree is None and rep_q is not None and "error" not in out and "error" not in rep_q:
            trig_code = any(code_accepts(s) and renamed(n, s) for s in out["sections"])
            if trig_code and rep_q.get("triggers") and not rep_q.get("validated"):
                attributed = fid
        if attributed:
            res.known(attributed)
        else:
            res.violation(case, pre + what, code=c_code, expected=expected,
                          model=None if rep_q is None or "gates" not in rep_q else dict(gates=short(rep_q["gates"])))


# ------------------------------------------------------------------ generators

def swap3(a, b):
    return [G("CX", [a, b]), G("CX", [b, a]), G("CX", [a, b])]


SEPS = [G("H", [0]), G("Z", [1]), G("S", [0]), G("T", [2]), G("Y", [1]), G("P", [0], p="0.5"), G("Swap", [0, 1]),
        G("CZ", [0, 2]), G("CP", [1, 2], p="0.25"), G("MCtrl", [0, 1, 2], n=2, g="Z"), G("H", [2])]

SECTIONS = {
    # permutations of qubits
    "swap01": swap3(0, 1), "swap10": swap3(1, 0), "swap02": swap3(0, 2), "swap21": swap3(2, 1),
    "cycle": swap3(0, 1) + swap3(1, 2), "cycle2": swap3(2, 0) + swap3(0, 1),
    "swap+x": swap3(0, 1) + [G("X", [2])], "x+swap": [G("X", [0])] + swap3(1, 2),
    "swap+xin": swap3(0, 1) + [G("X", [0])], "x.swap.x": [G("X", [1])] + swap3(0, 1) + [G("X", [0])],
    "swapswap": swap3(0, 1) + swap3(0, 1), "swap-ccx": [G("CCX", [0, 1, 2])] + swap3(0, 1) + [G("CCX", [0, 1, 2])],
    "swap-barrier": [G("CX", [0, 1]), G("Barrier", []), G("CX", [1, 0]), G("CX", [0, 1])],
    "swap-mcx1": [G("MCX", [0, 1], n=1), G("MCX", [1, 0], n=1), G("MCX", [0, 1], n=1)],
    "swap-mctrl": [G("MCtrl", [0, 1], n=1, g="X"), G("CX", [1, 0]), G("MCtrl", [0, 1], n=1, g="X")],
    # permutations whose RAW section expressions are not bare symbols (they become a relabelling only after
    # simplification): a swap with cancelling X gates interleaved, a swap whose middle CX is split into two
    # Toffolis on q2 / not q2
    "swap-x-interleaved": [G("CX", [1, 0]), G("X", [0]), G("CX", [0, 1]), G("X", [1]), G("CX", [1, 0]), G("X", [0])],
    "swap-x-interleaved2": [G("X", [1]), G("CX", [0, 1]), G("X", [0]), G("CX", [1, 0]), G("X", [1]), G("CX", [0, 1]), G("X", [0]), G("X", [1])],
    "swap-split-toffoli": [G("CX", [0, 1]), G("CCX", [2, 1, 0]), G("X", [2]), G("CCX", [2, 1, 0]), G("X", [2]), G("CX", [0, 1])],
    # computing into occupied qubits
    "ccx": [G("CCX", [0, 1, 2])], "mcx": [G("MCX", [2, 0, 1], n=2)], "cx": [G("CX", [0, 1])],
    "cx-chain": [G("CX", [0, 1]), G("CX", [1, 2]), G("CX", [2, 0])],
    "ccx-chain": [G("CCX", [0, 1, 2]), G("CX", [2, 0]), G("CCX", [1, 2, 0]), G("X", [1])],
    "adder": [G("CCX", [0, 1, 2]), G("CX", [0, 1])],
    "x.cx": [G("X", [0]), G("CX", [0, 1])],
    "mctrlx": [G("MCtrl", [0, 1, 2], n=2, g="X"), G("X", [0])],
    # cancelling
    "xx": [G("X", [0]), G("X", [0])], "cxcx": [G("CX", [0, 1]), G("CX", [0, 1])],
    "ccxccx": [G("CCX", [0, 1, 2]), G("CCX", [1, 0, 2])], "x.cx.x.cx": [G("X", [0]), G("CX", [0, 1]), G("X", [0]), G("CX", [0, 1])],
    "palin": [G("CX", [0, 1]), G("CCX", [0, 1, 2]), G("X", [2]), G("CCX", [0, 1, 2]), G("CX", [0, 1])],
    "ccx.xx.ccx": [G("CCX", [0, 1, 2]), G("X", [0]), G("X", [1]), G("CCX", [0, 1, 2])],
    "xxx": [G("X", [0]), G("X", [1]), G("X", [0]), G("X", [2]), G("X", [1]), G("X", [1])],
    "id": [G("I", [1])], "x.i.x": [G("X", [1]), G("I", [1]), G("X", [1])],
    "test2": [G("X", [2]), G("CX", [1, 0]), G("X", [0]), G("CX", [1, 0]), G("X", [0]), G("X", [1]), G("X", [0]), G("CX", [2, 1])],
}


def systematic_cases():
    B = G("Barrier", [])
    N = G("NopGate", [])
    out = []
    names = list(SECTIONS)
    for nm in names:
        r = SECTIONS[nm]
        # alone, with barriers around, between separators
        for lead in (0, 1):
            for trail in (0, 1, 2):
                out.append((3, [B] * lead + r + [B] * trail))
        for sep in SEPS:
            out.append((3, [sep] + r))
            out.append((3, r + [sep]))
            out.append((3, [sep] + r + [B, sep]))
        # a barrier / nop at every inner position
        for pos in range(1, len(r)):
            out.append((3, r[:pos] + [B] + r[pos:]))
            out.append((3, [SEPS[0]] + r[:pos] + [N, B] + r[pos:] + [B, B, SEPS[1]]))
        # more qubits than the section uses
        out.append((5, r + [G("H", [4])]))
    # two and three sections
    for i, a in enumerate(names):
        for b in (names[(i + 3) % len(names)], names[(i * 7 + 1) % len(names)], "swap01", "x.cx.x.cx"):
            for sep in (SEPS[0], SEPS[6], SEPS[9]):
                out.append((3, SECTIONS[a] + [sep] + SECTIONS[b]))
            out.append((3, SECTIONS[a] + [B, SEPS[3], B] + SECTIONS[b] + [SEPS[4]] + SECTIONS[a]))
    # the repo's own test circuits
    out.append((3, [G("H", [2]), B, G("X", [0]), G("CX", [0, 1]), G("X", [0]), G("CX", [0, 1]), B, G("H", [2]), G("H", [1]),
                    G("H", [0]), B, G("X", [1]), G("CX", [1, 2]), G("X", [1]), G("CX", [1, 2])]))
    # every gate kind alone and next to a section
    kinds = [G("X", [0]), G("Y", [0]), G("Z", [0]), G("H", [0]), G("S", [0]), G("T", [0]), G("I", [0]), G("P", [0], p="0.5"),
             G("Swap", [0, 1]), G("CX", [0, 1]), G("CZ", [0, 1]), G("CP", [0, 1], p="0.25"), G("CCX", [0, 1, 2]),
             G("MCX", [0, 1, 2], n=2), G("MCX", [0], n=0), G("MCtrl", [0, 1, 2], n=2, g="X"), G("MCtrl", [0, 1], n=1, g="Z"),
             G("MCtrl", [1, 0], n=1, g="H"), B, N]
    for k in kinds:
        out.append((3, [k]))
        out.append((3, [k] + swap3(1, 2)))
        out.append((3, [G("X", [2]), G("X", [2])] + [k]))
        out.append((3, [G("X", [2]), k, G("X", [2])]))
    out.append((1, []))
    out.append((2, []))
    return out


def strings_cases(maxlen):
    alpha = [G("X", [a]) for a in range(3)] + [G("CX", [a, b]) for a, b in itertools.permutations(range(3), 2)] + \
            [G("CCX", [c for c in range(3) if c != t] + [t]) for t in range(3)]
    for L in range(1, maxlen + 1):
        for t in itertools.product(range(len(alpha)), repeat=L):
            yield (3, [alpha[i] for i in t])


def perm_section(rng, n):
    """a random permutation of some qubits as 3-CX swaps, possibly mixed with X gates"""
    gs = []
    for _ in range(rng.randint(1, 3)):
        a, b = rng.sample(range(n), 2)
        gs += swap3(a, b)
        if rng.random() < 0.4:
            gs.append(G("X", [rng.randrange(n)]))
    return gs


def cancel_section(rng, n):
    half = [circ.rand_gate(rng, n, classical_only=True) for _ in range(rng.randint(1, 3))]
    mid = [G("X", [rng.randrange(n)])] if rng.random() < 0.5 else []
    return half + mid + half[::-1]


def random_cases(rng, count, max_n):
    kinds_all = ["X", "CX", "CCX", "MCX", "X", "CX", "CCX", "X", "CX", "H", "Z", "Y", "S", "T", "P", "CP", "CZ", "Swap",
                 "MCtrlZ", "MCtrlX", "Barrier", "I"]
    kinds_xcx = ["X", "CX", "CX", "CX"]
    for k in range(count):
        mode = k % 6
        if mode in (0, 1):
            n = rng.randint(1, max_n)
            yield (n, circ.rand_circuit(rng, n, rng.randint(1, 12), kinds=kinds_all))
        elif mode == 2:
            n = rng.randint(2, 4)
            yield (n, circ.rand_circuit(rng, n, rng.randint(3, 9), kinds=kinds_xcx))
        elif mode == 3:
            n = rng.randint(2, min(5, max_n))
            gs = []
            for _ in range(rng.randint(1, 3)):
                gs += perm_section(rng, n) if rng.random() < 0.6 else cancel_section(rng, n)
                if rng.random() < 0.3:
                    gs.append(G("Barrier", []))
                gs.append(circ.rand_gate(rng, n, kinds=["H", "Z", "S", "T", "Swap", "CZ", "Y"]))
            if rng.random() < 0.5:
                gs.pop()
            yield (n, gs)
        elif mode == 4:
            n = rng.randint(2, min(5, max_n))
            gs = circ.rand_circuit(rng, n, rng.randint(0, 4), kinds=kinds_all) + cancel_section(rng, n) + \
                circ.rand_circuit(rng, n, rng.randint(0, 4), kinds=kinds_all)
            yield (n, gs)
        else:
            n = rng.randint(3, min(6, max_n))
            yield (n, circ.rand_circuit(rng, n, rng.randint(4, 14), classical_only=True))


# ---------------------------------------------------------------- shared gate objects, wide circuits

WIDE = (10, 11, 12, 16)


def remap(gates, m):
    return [dict(d, w=[m[i] for i in d["w"]]) for d in gates]


def sharing_cases():
    """one gate OBJECT at several positions / in several sections (what `qc += sub` twice produces; equal applied-gate
    tuples when the wires are the same too): gate by gate (ids) and through the real composition API"""
    B = G("Barrier", [])
    out = []
    Hs, Bs = dict(SEPS[0], id=90), dict(B, id=92)
    names = list(SECTIONS)
    gate = lambda d: dict(op="gate", g=d)
    iadd = lambda k: dict(op="iadd", sub=k)
    app = lambda k, q: dict(op="append_circuit", sub=k, qubits=q)
    for i, nm in enumerate(names):
        r, r2 = SECTIONS[nm], SECTIONS[names[(i + 3) % len(names)]]
        s, t = circ.with_ids(r, 1), circ.with_ids(r2, 30)
        rot = [dict(d, w=[(k + 1) % 3 for k in d["w"]]) for d in s]
        sep, sep2 = SEPS[i % len(SEPS)], SEPS[(i + 4) % len(SEPS)]
        out.append((3, s + [sep] + s))
        out.append((3, s + [sep] + s + [B, sep2] + s))
        out.append((3, t + [sep] + s + [sep2] + t + [B, sep] + s))
        out.append((3, s + [Hs] + s[:1] + t))
        out.append((3, s + [Hs] + s[1:] + [Hs] + s[-1:] + [Hs] + s))
        out.append((3, s + [Hs] + rot + [Hs] + s))
        out.append((3, s + [Bs, Hs, Bs] + s + [Bs]))
        out.append((3, s + s + [Hs] + s))
        # same first objects, same length, other last gate
        out.append((3, s + [Hs] + s[:-1] + [G("X", [2])] + [Hs] + s[:-1] + [G("X", [0])]))
        out.append((3, s[:-1] + [G("X", [1])] + [Hs] + s))
        out.append((5, s + [G("H", [4])] + t + [G("H", [3])] + s))
        subs = [dict(n=3, gates=r), dict(n=3, gates=r2), dict(n=3, gates=[SEPS[0]] + r + [SEPS[3], B] + r2)]
        for steps, n in [
            ([iadd(0), gate(sep), iadd(0)], 3),
            ([iadd(1), gate(sep), iadd(0), gate(B), gate(sep2), iadd(1), gate(sep), iadd(0)], 3),
            ([app(0, [1, 2, 3]), gate(G("H", [4])), app(0, [1, 2, 3])], 5),
            ([app(0, [4, 2, 0]), gate(G("T", [1])), app(1, [4, 2, 0]), gate(G("T", [1])), app(0, [4, 2, 0])], 5),
            ([iadd(0), gate(sep), dict(op="iadd_self")], 3),
            ([gate(sep2), iadd(0), dict(op="repeat", times=2)], 3),
            ([iadd(0), gate(sep), dict(op="add", sub=0)], 3),
            ([iadd(2), iadd(2)], 3),
        ]:
            out.append(circ.api_case(dict(n=n, subs=subs, steps=steps)))
        nms = circ.name_schemes(5)
        out.append(circ.api_case(dict(n=5, names=nms[("letters", "reversed-q", "shifted-q")[i % 3]], subs=subs,
                                      steps=[app(0, [1, 2, 3]), gate(G("H", [4])), app(0, [1, 2, 3]), gate(G("H", [0])), app(1, [3, 4, 0])])))
    return out


def wide_triples(n):
    return [(2, 3, 4), (n - 1, 2, n - 2), (3, 2, n - 1), (n - 2, n - 1, n - 3), (1, n - 1, 0), (4, 3, 2), (8, 1, n - 1), (2, 9, 8)]


def x_over_all(n, xs):
    """a section touching every qubit (cancelling CX pairs, ordered so that no target is a control later: the
    decompiled expressions stay small) whose net action is X on the qubits xs"""
    gs = []
    for i in reversed(range(n - 1)):
        if i + 1 in xs:
            gs.append(G("X", [i + 1]))
        gs += [G("CX", [i, i + 1])] * 2
    if 0 in xs:
        gs.append(G("X", [0]))
    return gs


def wide_cases():
    """circuits on 10, 11, 12, 16 qubits (from 11 qubits on the textual order of the default qubit names is not their
    index order), also with user-chosen qubit names"""
    B = G("Barrier", [])
    out = []
    names = list(SECTIONS)
    for n in WIDE:
        trs = wide_triples(n)
        nms = circ.name_schemes(n)
        schemes = [k for k in nms if k != "default"]
        for i, nm in enumerate(names):
            r = SECTIONS[nm]
            for j in (0, 1):
                m, m2 = trs[(i + 3 * j) % len(trs)], trs[(i + 3 * j + 1) % len(trs)]
                sep = remap([SEPS[(i + j) % len(SEPS)]], m2)
                if j == 0:
                    out.append((n, remap(r, m)))
                    out.append((n, remap(r, m) + sep + remap(SECTIONS[names[(i + 5) % len(names)]], m2) + [B] + sep))
                else:
                    out.append((n, sep + remap(r, m) + [G("H", [n - 1])], dict(names=nms[schemes[i % len(schemes)]])))
            m = trs[i % len(trs)]
            s = circ.with_ids(remap(r, m), 1)
            out.append((n, s + [G("H", [n - 1])] + s))
        for k, xs in enumerate(([2], [n - 1], [2, n - 1], [3, 4], list(range(0, n, 2)), list(range(n)))):
            out.append((n, x_over_all(n, xs)))
            if k % 2 == 0:
                out.append((n, [G("H", [1])] + x_over_all(n, xs) + [G("CZ", [n - 1, 2])] + x_over_all(n, xs[:1])))
        out.append((n, x_over_all(n, [2, n - 2]), dict(names=nms["reversed-q"])))
        out.append((n, x_over_all(n, [3]) + [G("S", [n - 1])], dict(names=nms["words"])))
        # X gates that do not cancel, on the qubits whose names sort elsewhere, next to a cancelling pair on their neighbours
        for a in (2, 3, 9, n - 1):
            b, c = (a + 1) % n, (a + 2) % n
            out.append((n, [G("X", [a]), G("CX", [b, c]), G("CX", [b, c]), G("X", [b]), G("X", [b])]))
            out.append((n, [G("T", [a]), G("X", [a]), G("CCX", [a, b, c]), G("X", [a]), G("H", [c]), G("X", [a]), G("X", [c]), G("X", [b]), G("X", [c])]))
    return out


def random_shared_cases(rng, count):
    for k in range(count):
        n = rng.randint(2, 5)
        pool = []
        for i in range(rng.randint(2, 5)):
            d = circ.rand_gate(rng, n, kinds=["X", "CX", "CCX", "MCX", "X", "CX", "X", "H", "Swap", "T", "CZ", "Barrier", "MCtrlX"])
            pool.append(dict(d, id=i + 1))
        gs = []
        for _ in range(rng.randint(2, 12)):
            d = dict(rng.choice(pool))
            x = rng.random()
            if x < 0.15 and d["w"]:
                d["w"] = rng.sample(range(n), len(d["w"]))
            elif x < 0.25:
                d["id"] = 0
            gs.append(d)
        yield (n, gs)


def random_api_cases(rng, count):
    for k in range(count):
        n = rng.randint(3, 5)
        subs = []
        for _ in range(rng.randint(1, 3)):
            m = rng.randint(1, min(n, 3))
            gs = cancel_section(rng, m) if rng.random() < 0.5 else \
                [circ.rand_gate(rng, m, kinds=["X", "CX", "CCX", "X", "CX", "H", "T", "Barrier"]) for _ in range(rng.randint(1, 4))]
            subs.append(dict(n=m, gates=gs))
        steps = []
        for _ in range(rng.randint(2, 5)):
            x = rng.random()
            j = rng.randrange(len(subs))
            if x < 0.4:
                steps.append(dict(op="append_circuit", sub=j, qubits=rng.sample(range(n), subs[j]["n"])))
            elif x < 0.6:
                steps.append(dict(op="iadd", sub=j))
            elif x < 0.66:
                steps.append(dict(op="iadd_self"))
            elif x < 0.72:
                steps.append(dict(op="repeat", times=rng.randint(1, 2)))
            elif x < 0.78:
                steps.append(dict(op="add", sub=j))
            else:
                steps.append(dict(op="gate", g=circ.rand_gate(rng, n, kinds=["H", "Z", "S", "Swap", "CZ", "X", "CX", "Barrier"])))
        nms = rng.choice(list(circ.name_schemes(n).values()))
        c = circ.api_case(dict(n=n, names=nms, subs=subs, steps=steps))
        if len(c[1]) <= 40:
            yield c


def random_wide_cases(rng, count):
    for k in range(count):
        n = rng.choice([10, 11, 12, 13, 16])
        hot = sorted({0, 1, 2, 3, 4, 9, n - 1, n - 2, n - 3})
        gs = []
        for _ in range(rng.randint(1, 3)):
            m = rng.randint(2, 5)
            q = rng.sample(hot if rng.random() < 0.6 else range(n), m)
            x = rng.random()
            sec = perm_section(rng, m) if x < 0.3 else cancel_section(rng, m) if x < 0.7 else \
                cancel_section(rng, m) + [G("X", [rng.randrange(m)]) for _ in range(rng.randint(1, 3))]
            gs += remap(sec, q)
            if rng.random() < 0.3:
                gs.append(G("Barrier", []))
            gs.append(circ.rand_gate(rng, n, kinds=["H", "Z", "S", "T", "Swap", "CZ", "Y"]))
        if rng.random() < 0.5:
            gs.pop()
        if k % 5 == 0:
            gs = x_over_all(n, rng.sample(range(n), rng.randint(1, 4))) + gs
        nms = rng.choice(list(circ.name_schemes(n).values())) if k % 2 else None
        yield (n, gs, dict(names=nms))


def compiled_cases(ctx, count):
    """circuits of compiled qlasskit programs (all classical, up to MAX_CL qubits)"""
    from . import progs

    out = []
    tries = 0
    while len(out) < count and tries < count * 6:
        tries += 1
        k = ctx.rng.randrange(10 ** 6)
        try:
            src = progs.gen_bool_program(ctx.rng, k) if tries % 2 else progs.gen_int_program(ctx.rng, k, max_bits=6)
            if isinstance(src, tuple):
                src = src[0]
            from qlasskit import qlassf

            qf = qlassf(src, to_compile=True)
            qc = qf.circuit()
        except Exception:  # noqa
            continue
        if qc.num_qubits > MAX_CL or qc.num_gates > 60:
            continue
        out.append((qc.num_qubits, [dict(d, id=0) for d in circ.qc_to_json(qc)]))
    return out


# ------------------------------------------------------------------ histories: many calls in one process
#
# history = {label, circuits: [{n, gates, names?, recipe?}], steps: [step]},
# step    = {circ: j, slot?: s, add?: [gates], feed?: k, scribble?: true}
#   circ      the circuit; without `slot` / `feed` a new QCircuit object is built for the call
#   slot      a QCircuit object that is kept: built from `circ` at the slot's first step, the SAME object is passed
#             again at its later steps, after `add` (gates appended to it in place, through QCircuit.append)
#   feed      the input is the RESULT object of call k (an optimised circuit is optimised again); `circ` is ignored
#   scribble  after the call the caller empties the circuit it got and puts another gate in

def hist_build(c, adds=()):
    qc = circ.build_api(c["recipe"]) if c.get("recipe") else circ.build_qc(c["n"], c["gates"], share_ids=True, names=c.get("names"))
    hist_append(qc, adds)
    return qc


def hist_append(qc, gates):
    for d in gates:
        qc.append(circ.make_gate(d), list(d["w"]), circ._param(d))


def read_qc(q):
    try:
        return dict(gates=circ.qc_to_json(q), num_qubits=q.num_qubits, qubit_map=dict(q.qubit_map))
    except Exception as e:  # noqa
        return dict(error=f"reading the circuit raised {type(e).__name__}: {e}")


def feedable(c):
    """the result of an earlier call can be the input of this one: there is one, the caller has not rewritten it, it
    still reads as it did (else that is reported already) and it is a circuit on its own qubits"""
    if c.get("r") is None or c.get("scribbled") or "gates" not in (c["r_read"] or {}):
        return False
    now = read_qc(c["r"])
    return now == c["r_read"] and all(isinstance(i, int) and 0 <= i < now["num_qubits"] for d in now["gates"] for i in d["w"]) \
        and not any(d["c"].startswith("?") for d in now["gates"])


def run_history(h):
    """play a history on the real code.  Per call: the circuit it was about (n, gates as the harness denotes them),
    the logged run (code_optimize), the result of the same call made on its own (a newly built equal circuit), and
    whether the input object / the result object read differently after a later call"""
    from qlasskit.qcircuit import gates as QG

    slots, calls = {}, []
    for k, st in enumerate(h["steps"]):
        c = h["circuits"][st["circ"]]
        s, feed = st.get("slot"), st.get("feed")
        names = c.get("names")
        if feed is not None and feedable(calls[feed]):
            qc = calls[feed]["r"]
            n, gates, names = qc.num_qubits, [dict(d, id=0) for d in circ.qc_to_json(qc)], None
            alone = (n, gates, None)
        else:
            if s is None:
                adds = []
                qc = hist_build(c)
            elif s not in slots:
                adds = []
                slots[s] = [hist_build(c), c, adds]
                qc = slots[s][0]
            else:
                qc, c, adds = slots[s]
                names = c.get("names")
                hist_append(qc, st.get("add") or [])
                adds.extend(dict(d, id=0) for d in (st.get("add") or []))
            n, gates = c["n"], list(c["gates"]) + list(adds)
            alone = (c, list(adds))
        keep = {}
        out = code_optimize(n, gates, None, qc=qc, keep=keep)
        call = dict(n=n, gates=gates, opts=dict(names=names) if names else None, out=out, r=keep.get("r"), qc=keep.get("qc"),
                    changed=None)
        call["r_read"] = read_qc(call["r"]) if call["r"] is not None else None
        call["qc_read"] = read_qc(call["qc"])
        # the same call on its own
        try:
            if isinstance(alone[0], dict):
                call["alone"] = code_optimize(n, gates, None, qc=hist_build(alone[0], alone[1]))
            else:
                call["alone"] = code_optimize(n, gates, None)
        except Exception as e:  # noqa  (the circuit cannot be built a second time: nothing to compare with)
            call["alone"] = out
        for j, cj in enumerate(calls):
            if cj["changed"] is not None:
                continue
            # (a slot's object is the caller's: the caller itself appends to it)
            if cj["r"] is not None and not cj.get("scribbled") and read_qc(cj["r"]) != cj["r_read"]:
                cj["changed"] = dict(after_call=k, which="result", now=read_qc(cj["r"]))
            elif not cj.get("slot_object") and read_qc(cj["qc"]) != cj["qc_read"]:
                cj["changed"] = dict(after_call=k, which="input circuit", now=read_qc(cj["qc"]))
        call["slot_object"] = s is not None and feed is None
        if st.get("scribble") and call["r"] is not None:
            try:
                call["r"].gates.clear()
                call["r"].append(QG.H(), [0])
            except Exception:  # noqa
                pass
            call["scribbled"] = True
        calls.append(call)
    return calls


def out_value(out):
    return dict(error=out["error"]) if "error" in out else dict(gates=short(out["gates"]), num_qubits=out["num_qubits"])


def hist_verdicts(calls):
    """history-level part of the oracle: [(call, what, info)]; each call is judged against its own input by `judge`
    like any single case"""
    bad = []
    for k, c in enumerate(calls):
        if out_value(c["out"]) != out_value(c["alone"]):
            bad.append((k, f"call {k} of the history returns something else than the same call made on its own "
                           "(a newly built equal circuit)", dict(in_the_history=out_value(c["out"]), on_its_own=out_value(c["alone"]))))
        if c["changed"] is not None:
            ch = c["changed"]
            before = c["r_read"] if ch["which"] == "result" else c["qc_read"]
            bad.append((k, f"the {ch['which']} of call {k} of the history reads differently after call {ch['after_call']}",
                        dict(right_after_the_call=short(before["gates"]) if "gates" in before else before,
                             later=short(ch["now"]["gates"]) if "gates" in ch["now"] else ch["now"])))
    return bad


def hist_features(h):
    fs = set()
    cs, steps = h["circuits"], h["steps"]
    plain = [s for s in steps if s.get("feed") is None]
    seq = [(s["circ"], json.dumps(s.get("add") or [])) for s in plain]
    if any(seq[i] == seq[j] for i in range(len(seq)) for j in range(i)):
        fs.add("a circuit optimised again")
    if len({s["circ"] for s in plain}) > 1:
        fs.add("different circuits")
    if len({cs[s["circ"]]["n"] for s in plain}) > 1:
        fs.add("different qubit counts")
    if any(not cs[s["circ"]]["gates"] for s in plain):
        fs.add("empty circuit")
    if any(cs[s["circ"]].get("names") for s in plain):
        fs.add("user-chosen qubit names")
    if any(s.get("slot") is not None for s in steps):
        fs.add("same QCircuit object passed again")
    if any(s.get("add") for s in steps):
        fs.add("QCircuit object extended in place between calls")
    if any(s.get("feed") is not None for s in steps):
        fs.add("a result optimised again")
    if any(s.get("scribble") for s in steps):
        fs.add("caller rewrites a result it got")
    return sorted(fs)


def check_histories(ctx, res, hists, bucket, full=True):
    cases, outs, wrap, per = [], [], [], []
    for h in hists:
        calls = run_history(h)
        hj = dict(label=h["label"], circuits=h["circuits"], steps=h["steps"])
        for k, c in enumerate(calls):
            cases.append((c["n"], c["gates"], c["opts"]))
            outs.append(c["out"])
            wrap.append(dict(history=hj, call=k))
        per.append((hj, calls))
        x = res.extra.setdefault("histories", dict(histories=0, calls=0, by_number_of_calls={}, by_feature={}))
        x["histories"] += 1
        x["calls"] += len(calls)
        x["by_number_of_calls"][str(len(calls))] = x["by_number_of_calls"].get(str(len(calls)), 0) + 1
        for f in hist_features(h):
            x["by_feature"][f] = x["by_feature"].get(f, 0) + 1
    check_batch(ctx, res, cases, bucket, full, outs=outs, wrap=wrap)
    for hj, calls in per:
        for k, what, info in hist_verdicts(calls):
            c = calls[k]
            res.violation(dict(n=c["n"], gates=short(c["gates"]), gates_json=c["gates"], history=hj, call=k), what, **info)


def mk_history(label, circuits, steps):
    """circuits: {key: (n, gates[, opts])}, steps: [(key[, {slot, add, feed, scribble}])]"""
    keys, cs, st = {}, [], []
    for s in steps:
        key = s[0]
        extra = s[1] if len(s) > 1 else {}
        if key not in keys:
            c = circuits[key]
            o = (c[2] if len(c) > 2 else None) or {}
            d = dict(n=c[0], gates=c[1])
            if o.get("names"):
                d["names"] = o["names"]
            if o.get("recipe"):
                d["recipe"] = o["recipe"]
            keys[key] = len(cs)
            cs.append(d)
        st.append(dict(circ=keys[key], **extra))
    return dict(label=label, circuits=cs, steps=st)


def history_cases():
    """circuit_boolean_optimizer called 2, 3, 5 times in one process, for every section shape (four of the history
    shapes each, in rotation, so that every shape meets every kind of section)"""
    B = G("Barrier", [])
    S0 = dict(slot=0)
    names = list(SECTIONS)
    out = []
    fixed = dict(empty=(3, []), empty1=(1, []), one=(1, [G("X", [0])]), seps=(3, [SEPS[0], SEPS[1]]))
    for i, nm in enumerate(names):
        r, r2, r3 = SECTIONS[nm], SECTIONS[names[(i + 3) % len(names)]], SECTIONS[names[(i + 5) % len(names)]]
        cs = dict(fixed)
        cs["a"] = (3, r)
        cs["b"] = (3, [SEPS[i % len(SEPS)]] + r2 + [B, SEPS[(i + 4) % len(SEPS)]] + r)
        cs["c"] = (5, [G("H", [4])] + remap(r3, (4, 2, 0)) + [G("CZ", [3, 4])] + remap(r, (1, 2, 3)),
                   dict(names=circ.name_schemes(5)[("letters", "reversed-q", "shifted-q")[i % 3]]) if i % 2 else None)
        shapes = [
            ("same circuit twice", [("a",), ("a",)]),
            ("same QCircuit object twice", [("b", S0), ("b", S0)]),
            ("a b a", [("a",), ("b",), ("a",)]),
            ("b empty a", [("b",), ("empty",), ("a",)]),
            ("a b c a b", [("a",), ("b",), ("c",), ("a",), ("b",)]),
            ("c(5 qubits) a one(1 qubit)", [("c",), ("a",), ("one",)]),
            ("QCircuit object grown in place", [("a", S0), ("a", dict(slot=0, add=[SEPS[0]] + r2)), ("a", dict(slot=0, add=[G("X", [1])]))]),
            ("result optimised again", [("b",), ("b", dict(feed=0)), ("b", dict(feed=1))]),
            ("result rewritten by the caller, same circuit again", [("a", dict(scribble=True)), ("a",), ("b",)]),
            ("b a result-of-b empty(1 qubit) result-of-result", [("b",), ("a",), ("b", dict(feed=0)), ("empty1",), ("b", dict(feed=2))]),
            ("a separators-only a", [("a",), ("seps",), ("a",)]),
            ("same QCircuit object, result rewritten by the caller", [("b", dict(slot=0, scribble=True)), ("b", S0)]),
        ]
        for j in range(4):
            label, steps = shapes[(i + 3 * j) % len(shapes)]
            out.append(mk_history(f"{label} / section {nm}", cs, steps))
    # wide, shared gate objects, API-built
    n = 11
    s = circ.with_ids(SECTIONS["swap01"], 1)
    cs = dict(a=(3, SECTIONS["x.cx.x.cx"]), one=fixed["one"],
              w=(n, remap(SECTIONS["swap+x"], (n - 1, 2, n - 2)) + [G("H", [n - 1])] + remap(SECTIONS["xx"], (9, 1, 2))),
              wn=(n, [G("T", [2])] + remap(SECTIONS["palin"], (2, 9, n - 1)), dict(names=circ.name_schemes(n)["words"])),
              sh=(3, s + [SEPS[0]] + s),
              api=circ.api_case(dict(n=5, subs=[dict(n=3, gates=SECTIONS["cycle"])],
                                     steps=[dict(op="append_circuit", sub=0, qubits=[1, 2, 3]), dict(op="gate", g=G("H", [4])),
                                            dict(op="append_circuit", sub=0, qubits=[1, 2, 3])])))
    out.append(mk_history("widths 11 3 1 11 named 3", cs, [("w",), ("a",), ("one",), ("wn",), ("a",)]))
    out.append(mk_history("shared gate objects, api, wide", cs, [("sh",), ("api",), ("w",)]))
    out.append(mk_history("wide QCircuit object twice, grown", cs, [("w", S0), ("w", S0), ("w", dict(slot=0, add=[G("H", [0]), G("X", [n - 1]), G("X", [n - 1])]))]))
    out.append(mk_history("api result optimised again", cs, [("api",), ("api", dict(feed=0)), ("sh",), ("sh", dict(feed=2)), ("api",)]))
    return out


def random_history_cases(rng, count, max_n):
    """random histories of 2..5 calls over the random generators of this file (now and then wide / shared gate objects
    / empty), QCircuit objects passed again and grown in place, results optimised again, results rewritten"""
    for k in range(count):
        ncalls = rng.choice([2, 2, 3, 3, 3, 4, 5, 5])
        ncirc = rng.randint(1, ncalls)
        cs = {}
        for i in range(ncirc):
            x = rng.random()
            if x < 0.08:
                cs[i] = (rng.randint(1, 4), [])
            elif x < 0.18:
                cs[i] = next(random_wide_cases(rng, 1))
            elif x < 0.33:
                cs[i] = next(random_shared_cases(rng, 1))
            else:
                cs[i] = next(random_cases(rng, 1, max_n))
        steps, slots = [], set()
        for j in range(ncalls):
            key = rng.randrange(ncirc) if j >= ncirc else j
            extra = {}
            x = rng.random()
            if x < 0.3:
                extra["slot"] = key
                if key in slots and rng.random() < 0.5:
                    extra["add"] = [circ.rand_gate(rng, cs[key][0], kinds=["X", "CX", "H", "Barrier", "CCX", "T"]) for _ in range(rng.randint(1, 3))]
                slots.add(key)
            elif x < 0.45 and j > 0:
                extra["feed"] = rng.randrange(j)
            if rng.random() < 0.1:
                extra["scribble"] = True
            steps.append((key, extra))
        yield mk_history(f"random {k}", cs, steps)


def run(ctx: Ctx) -> Result:
    res = Result("C12")
    rng = ctx.rng
    res.rule = (
        "systematic: every section shape (qubit permutations as 3-CX swaps and cycles, computing into occupied qubits, "
        "cancelling runs) alone / between every separator gate / with a barrier at every inner position / paired with "
        "other sections; every gate kind alone and next to a section; all X/CX/CCX strings of length <= L on 3 qubits "
        "(L=4 thorough, 3 quick); random circuits over the full gate set on 1..6 qubits, random permutation / cancelling "
        "sections between separators, compiled programs; every section shape with its gate objects occurring again in later "
        "sections (built gate by gate and through qc += sub, append_circuit, qc += qc, repeat, +); every section shape on "
        "10/11/12/16 qubits at several places incl. the qubits whose names sort differently as text, sections touching every "
        "qubit, user-chosen qubit names (judged by the classical action on all / sampled basis states and gate-by-gate "
        "identity of the non-classical gates); random variants of these; "
        "histories: the optimizer called 2, 3, 5 times in one process (same circuit again, same QCircuit object again, grown in "
        "place, different circuits / qubit counts / names, empty circuit in between, a result optimised again, a result "
        "rewritten by the caller) - every call judged like a single case and compared with the same call made on its own, "
        "inputs and results of earlier calls read again after every later call; random histories; "
        "case = (n, gate list[, qubit names, recipe]); non-trivial = at least two classical gates"
    )
    check_batch(ctx, res, systematic_cases(), "systematic")
    check_batch(ctx, res, sharing_cases(), "shared-objects")
    check_batch(ctx, res, wide_cases(), "wide")
    check_histories(ctx, res, history_cases(), "history-calls")
    check_batch(ctx, res, list(strings_cases(4 if ctx.thorough else 3)), "strings12")
    rc = list(random_cases(rng, 24000 if ctx.thorough else 2400, MAX_SV if ctx.thorough else 5))
    for i in range(0, len(rc), 2000):
        check_batch(ctx, res, rc[i:i + 2000], "random")
    check_batch(ctx, res, list(random_shared_cases(rng, 2000 if ctx.thorough else 150)), "random-shared")
    check_batch(ctx, res, list(random_api_cases(rng, 1000 if ctx.thorough else 80)), "random-api")
    check_batch(ctx, res, list(random_wide_cases(rng, 1000 if ctx.thorough else 80)), "random-wide")
    check_histories(ctx, res, list(random_history_cases(rng, 600 if ctx.thorough else 60, MAX_SV if ctx.thorough else 5)),
                    "random-history-calls")
    check_batch(ctx, res, compiled_cases(ctx, 150 if ctx.thorough else 25), "compiled")
    res.exhaustive = True
    res.notes.append("X/CX/CCX strings on 3 qubits enumerated completely up to the stated length; section patterns "
                     "enumerated completely; random part sampled")
    res.assumptions.append("sympy simplify_logic and the And/Or/Not/Xor constructors preserve meaning (hypotheses of "
                           "custom_simplify_preserves; validated: the expressions handed to the compiler are evaluated "
                           "against the harness' own gate simulator for every section, and by the Lean model against its "
                           "own decompiled expressions)")
    res.assumptions.append("gate tuples are built by QCircuit.append (arity = n_qubits, distinct wires)")
    res.assumptions.append("X/CX/CCX/MCX/MCtrl(X) permute basis states as applyClassical says, I and barriers are the "
                           "identity (SemLaws); all other gates arbitrary")
    res.notes.append("C12_full (= C12_statement) is proved: every re-synthesis the repaired splice test accepts consists of the "
                     "X gates of self-negations (accepted_xonly, from the compiler model) and such a splice keeps the action "
                     "(xonly_splice_ok); its hypothesis keysOK and its conclusion xonly are re-checked on every section of every "
                     "case, next to the validator of C12_partial")
    return res


def witness_fails(ctx: Ctx, f):
    w = f.get("witness", {})
    n, gates = w["n"], w["gates"]
    out = code_optimize(n, gates)
    return judge(n, gates, out) is not None


def replay(ctx: Ctx, payload):
    first = payload.get("first") or {}
    case = first.get("case", {})
    if "gates_json" not in case:
        ds = payload.get("correspondence_disagreements") or []
        if ds and "gates_json" in ds[0].get("case", {}):
            case = ds[0]["case"]
        else:
            print("no failing input in this replay file (tie-broken record)")
            return 2
    if "history" in case:
        return replay_history(case["history"])
    n, gates = case["n"], case["gates_json"]
    opts = dict(names=case.get("names"), recipe=case.get("recipe"))
    print("replaying", json.dumps(short(gates)), "on", n, "qubits" +
          (", built through the composition API" if opts["recipe"] else "") +
          (f", qubit names {opts['names']}" if opts["names"] else ""))
    if case.get("same_gate_object_as_an_earlier_position"):
        print("positions holding a gate object of an earlier position:", case["same_gate_object_as_an_earlier_position"])
    out = code_optimize(n, gates, opts)
    print("code:", json.dumps(dict(error=out["error"]) if "error" in out else dict(gates=short(out["gates"]), num_qubits=out["num_qubits"])))
    v = judge(n, gates, out)
    print("oracle:", "property holds" if v is None else v[0])
    if v is not None:
        print("expected:", json.dumps(v[1], default=str))
    return 0 if v is None else 1


def replay_history(h):
    print("replaying the history:", h["label"])
    for i, c in enumerate(h["circuits"]):
        print(f"  circuit {i}: {c['n']} qubits", json.dumps(short(c["gates"])),
              ("names " + json.dumps(c["names"])) if c.get("names") else "", "(built through the composition API)" if c.get("recipe") else "")
    calls = run_history(h)
    hv = hist_verdicts(calls)
    rc = 0
    for k, (st, c) in enumerate(zip(h["steps"], calls)):
        print(f"call {k}: " + (f"the result of call {st['feed']}" if st.get("feed") is not None else f"circuit {st['circ']}") +
              (f", QCircuit object kept in slot {st['slot']}" if st.get("slot") is not None and st.get("feed") is None else "") +
              (f", after appending {json.dumps(short(st['add']))} to it" if st.get("add") else "") +
              (", the caller rewrites the result afterwards" if st.get("scribble") else ""))
        print("   input:", json.dumps(short(c["gates"])), "on", c["n"], "qubits")
        print("   code:", json.dumps(out_value(c["out"])))
        v = judge(c["n"], c["gates"], c["out"])
        print("   oracle:", "property holds" if v is None else v[0])
        if v is not None:
            print("   expected:", json.dumps(v[1], default=str))
            rc = 1
        for kk, what, info in hv:
            if kk == k:
                print("   oracle:", what)
                print("   ", json.dumps(info, default=str))
                rc = 1
    return rc
