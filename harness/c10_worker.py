"""C10 worker: code that runs inside a freshly forked child which has NOT imported qlasskit yet.

The parent (harness/c10.py) pre-imports only third-party packages (sympy, qiskit); every job
imports qlasskit anew, so each job sees a pristine library (module namespaces, default arguments,
class attributes).  `python -m harness.c10_worker` with a job on stdin runs the same code in a
completely fresh interpreter (used for a slice of the baselines in the thorough tier).

Everything here observes the REAL library; nothing in this file is a model.
"""
from __future__ import annotations

import hashlib
import importlib
import itertools
import json
import os
import re
import sys
import types

# --------------------------------------------------------------------------- the pool

def _p(name, src, callees=(), annots=("Qint",), params=False, argtypes=("Qint2",), level=0, twin=None, pvals=()):
    """`argtypes`: the types of the arguments that are NOT parameters; `pvals`: the candidate
    bindings (keyword dicts) of a program with Parameter[...] arguments"""
    return dict(name=name, src=src, callees=list(callees), annots=list(annots), params=params,
                argtypes=list(argtypes), level=level, twin=twin, pvals=[dict(v) for v in pvals])


# names of the library's own module globals / of locals of QlassF.from_function that the pool
# deliberately reuses as user function names
LIB_COLLIDERS = ["copy", "ast", "len", "flatten", "Symbol", "Qint"]
LOCAL_COLLIDERS = ["f", "types", "defs", "compiler", "uncompute", "fun_ast", "to_compile", "bool_optimizer"]

POOL = [
    # level 0: same names, different bodies / types
    _p("g", "def g(a: Qint[2]) -> bool:\n  return a == 2"),
    _p("g", "def g(a: Qint[2]) -> bool:\n  return a == 1"),
    _p("g", "def g(a: Qint[2]) -> Qint[2]:\n  return a + 1"),
    _p("oracle", "def oracle(a: Qint[2]) -> Qint[2]:\n  return a + 1"),
    _p("oracle", "def oracle(a: Qint[2]) -> bool:\n  return a == 3"),
    _p("_oracle", "def _oracle(a: Qint[2]) -> Qint[2]:\n  return a"),
    _p("f", "def f(a: bool) -> bool:\n  return not a", annots=(), argtypes=("bool",)),
    _p("f", "def f(a: Qint[2]) -> bool:\n  return a[0] ^ a[1]"),
    _p("x3", "def x3(a: Qint[3]) -> bool:\n  return a == 5", argtypes=("Qint3",)),
    _p("b2", "def b2(a: bool, b: bool) -> bool:\n  return a and b", annots=(), argtypes=("bool", "bool")),
    _p("dj", "def dj(a: Qint[2]) -> bool:\n  return a[0]"),
    _p("sm", "def sm(a: Qint[2]) -> Qint[2]:\n  return a ^ 1"),
    # level 0: names of library globals (the user's function replaces the library's binding)
    _p("copy", "def copy(a: bool) -> bool:\n  return a", annots=(), argtypes=("bool",), twin="zcopy"),
    _p("ast", "def ast(a: bool) -> bool:\n  return not a", annots=(), argtypes=("bool",), twin="zast"),
    _p("len", "def len(a: Qint[2]) -> bool:\n  return a[0]", twin="zlen"),
    _p("flatten", "def flatten(a: Qint[2]) -> bool:\n  return a[1]", twin="zflatten"),
    _p("Symbol", "def Symbol(a: bool) -> bool:\n  return a", annots=(), argtypes=("bool",), twin="zSymbol"),
    _p("Qint", "def Qint(a: bool) -> bool:\n  return not a", annots=(), argtypes=("bool",), twin="zQint"),
    # level 0: names of locals of QlassF.from_function
    _p("types", "def types(a: bool) -> bool:\n  return a", annots=(), argtypes=("bool",)),
    _p("defs", "def defs(a: Qint[2]) -> bool:\n  return a == 0"),
    _p("compiler", "def compiler(a: bool) -> bool:\n  return not a", annots=(), argtypes=("bool",)),
    _p("fun_ast", "def fun_ast(a: bool) -> bool:\n  return a", annots=(), argtypes=("bool",)),
    _p("uncompute", "def uncompute(a: bool) -> bool:\n  return a", annots=(), argtypes=("bool",)),
    # level 1: callers (need defs=)
    _p("h", "def h(a: Qint[2]) -> bool:\n  return g(a)", callees=("g",), level=1),
    _p("h", "def h(a: Qint[2]) -> bool:\n  return not g(a)", callees=("g",), level=1),
    _p("k", "def k(a: Qint[2]) -> bool:\n  return g(a) and f(a)", callees=("g", "f"), level=1),
    _p("c1", "def c1(a: bool) -> bool:\n  return copy(a)", callees=("copy",), annots=(), argtypes=("bool",), level=1),
    _p("o2", "def o2(a: Qint[2]) -> bool:\n  return _oracle(a) == 2", callees=("_oracle",), level=1),
    _p("o3", "def o3(a: Qint[2]) -> bool:\n  return oracle(a) == 1", callees=("oracle",), level=1),
    _p("t1", "def t1(a: bool) -> bool:\n  return types(a)", callees=("types",), annots=(), argtypes=("bool",), level=1),
    # level 2
    _p("top", "def top(a: Qint[2]) -> bool:\n  return h(a)", callees=("h",), level=2),
    # parameters
    _p("par", "def par(a: Qint[2], p: Parameter[bool]) -> bool:\n  return a[0] and p", annots=("Qint", "Parameter"),
       params=True, pvals=[dict(p=True), dict(p=False)]),
    # ---- appended (indices above are referred to by the witnesses in known_findings.json) ----
    # parameters that are lists / tuples, consumed by the aggregates ast2ast unrolls (sum any all len
    # max min), by a for loop and by constant indexing; the parameter first / last
    _p("psum", "def psum(a: Qint[2], c: Parameter[Qlist[Qint[2], 2]]) -> Qint[2]:\n  return a + sum(c)",
       annots=("Qint", "Parameter", "Qlist"), params=True, pvals=[dict(c=[1, 0]), dict(c=[1, 1]), dict(c=[3, 0])]),
    _p("pany", "def pany(a: bool, m: Parameter[Qlist[bool, 3]]) -> bool:\n  return any(m) and a",
       annots=("Parameter", "Qlist"), argtypes=("bool",), params=True,
       pvals=[dict(m=[False, False, False]), dict(m=[False, True, False]), dict(m=[True, True, True])]),
    _p("pall", "def pall(m: Parameter[Qlist[bool, 3]], a: bool) -> bool:\n  return all(m) and a",
       annots=("Parameter", "Qlist"), argtypes=("bool",), params=True,
       pvals=[dict(m=[True, True, True]), dict(m=[True, False, True]), dict(m=[False, False, False])]),
    _p("plen", "def plen(a: Qint[2], c: Parameter[Qlist[Qint[2], 2]]) -> Qint[2]:\n  return a + len(c)",
       annots=("Qint", "Parameter", "Qlist"), params=True, pvals=[dict(c=[1, 0]), dict(c=[1, 1, 1]), dict(c=[2])]),
    _p("pmax", "def pmax(a: Qint[2], c: Parameter[Qlist[Qint[2], 2]]) -> bool:\n  return a == max(c)",
       annots=("Qint", "Parameter", "Qlist"), params=True, pvals=[dict(c=[1, 0]), dict(c=[1, 3]), dict(c=[2, 2])]),
    _p("pmin", "def pmin(c: Parameter[Qlist[Qint[2], 2]], a: Qint[2]) -> bool:\n  return a == min(c)",
       annots=("Qint", "Parameter", "Qlist"), params=True, pvals=[dict(c=[1, 0]), dict(c=[1, 3]), dict(c=[2, 3])]),
    _p("pfor", "def pfor(a: Qint[2], c: Parameter[Qlist[Qint[2], 2]]) -> Qint[2]:\n  r = a\n  for x in c:\n    r = r ^ x\n  return r",
       annots=("Qint", "Parameter", "Qlist"), params=True, pvals=[dict(c=[1, 0]), dict(c=[1, 1]), dict(c=[2, 1])]),
    _p("ptup", "def ptup(a: bool, t: Parameter[Tuple[bool, Qint[2]]]) -> Qint[2]:\n  return t[1] if (a or t[0]) else 0",
       annots=("Qint", "Parameter", "Tuple"), argtypes=("bool",), params=True,
       pvals=[dict(t=[False, 2]), dict(t=[True, 1]), dict(t=[False, 3])]),
    # two parameters, one of them a list under two aggregates at once
    _p("pmix", "def pmix(a: Qint[2], c: Parameter[Qlist[Qint[2], 2]], p: Parameter[bool]) -> bool:\n"
               "  return (a == sum(c)) ^ (p and a[0]) ^ (a == max(c))",
       annots=("Qint", "Parameter", "Qlist"), params=True,
       pvals=[dict(c=[1, 0], p=True), dict(c=[1, 2], p=False), dict(c=[0, 2], p=True)]),
    # a function called g again, this time one that has to be bound first (usable as a definition afterwards)
    _p("g", "def g(a: Qint[2], c: Parameter[Qlist[Qint[2], 2]]) -> bool:\n  return a == sum(c)",
       annots=("Qint", "Parameter", "Qlist"), params=True, pvals=[dict(c=[1, 0]), dict(c=[1, 1]), dict(c=[2, 1])]),
    # unbound functions built with defs=[...]: every bind translates with the same definition objects
    _p("pk", "def pk(a: Qint[2], k: Parameter[Qint[2]]) -> bool:\n  return g(a + k)", callees=("g",),
       annots=("Qint", "Parameter"), params=True, level=1, pvals=[dict(k=1), dict(k=2), dict(k=3)]),
    _p("pq", "def pq(a: Qint[2], m: Parameter[Qlist[bool, 2]]) -> bool:\n  return (g(a) and any(m)) ^ f(a)",
       callees=("g", "f"), annots=("Qint", "Parameter", "Qlist"), params=True, level=1,
       pvals=[dict(m=[False, False]), dict(m=[False, True]), dict(m=[True, True])]),
    _p("pt", "def pt(a: Qint[2], p: Parameter[bool]) -> bool:\n  return h(a) ^ p", callees=("h",),
       annots=("Qint", "Parameter"), params=True, level=2, pvals=[dict(p=True), dict(p=False)]),
]


def pool_for_model():
    return [dict(name=p["name"], callees=p["callees"], annots=p["annots"], params=p["params"]) for p in POOL]


TWINS = {p["name"]: p["twin"] for p in POOL if p.get("twin")}


def twin_src(i):
    """the program with every library-colliding FUNCTION name (its own, and those of the functions it
    calls) replaced by the neutral twin name; types in annotations are left alone"""
    p = POOL[i]
    src = p["src"]
    if p["name"] in TWINS:
        src = re.sub(r"\bdef " + re.escape(p["name"]) + r"\(", "def " + TWINS[p["name"]] + "(", src, count=1)
    for c in p["callees"]:
        if c in TWINS:
            src = re.sub(r"\b" + re.escape(c) + r"\(", TWINS[c] + "(", src)
    return src


# --------------------------------------------------------------------------- fingerprints


def _h(txt):
    return hashlib.sha1(txt.encode()).hexdigest()[:12]


def gate_j(g, w, p):
    return [f"{type(g).__name__}|{g.name}", [int(x) for x in w], repr(p)]


def circ_j(qc):
    return dict(name=str(qc.name), nq=int(qc.num_qubits), gates=[gate_j(g, w, p) for g, w, p in qc.gates],
                qmap=[[str(k), int(v)] for k, v in qc.qubit_map.items()])


def safe(fn):
    try:
        return fn()
    except Exception as e:  # noqa
        return None


def canon_val(v):
    if isinstance(v, bool):
        return "T" if v else "F"
    if isinstance(v, int):
        return str(v)
    if hasattr(v, "value") and hasattr(v, "to_bin"):
        return str(int(v.value)) if not isinstance(v.value, bool) else ("T" if v.value else "F")
    if isinstance(v, (tuple, list)):
        return "(" + ",".join(canon_val(x) for x in v) + ")"
    return "?" + type(v).__name__


def type_by_name(tn):
    T = importlib.import_module("qlasskit.types")
    if tn == "bool":
        return bool
    m = re.fullmatch(r"Qint\[(\d+)\]", tn)
    if m:
        tn = "Qint" + m.group(1)
    return getattr(T, tn)


def inputs_for(argtypes):
    """all argument tuples, enumerated over the concatenated bits counting up (bit 0 = first)"""
    sizes = [1 if t is bool else t.BIT_SIZE for t in argtypes]
    n = sum(sizes)
    for v in range(2 ** n):
        bits = [bool((v >> k) & 1) for k in range(n)]
        out, i = [], 0
        for t, s in zip(argtypes, sizes):
            out.append(bits[i] if t is bool else t.from_bool(bits[i:i + s]))
            i += s
        yield out


def fn_table(fn, argtypes):
    if not callable(fn):
        return "notcallable"
    rows = []
    for args in inputs_for(argtypes):
        try:
            rows.append(canon_val(fn(*args)))
        except RecursionError:
            rows.append("raises:RecursionError")
        except Exception as e:  # noqa
            rows.append("raises:" + type(e).__name__)
    return rows


def qf_info(qf):
    """the part of a QlassF the compile oracle of the model stands for"""
    T = importlib.import_module("qlasskit.types")
    text = json.dumps([[str(a) for a in qf.args], str(qf.returns), [str(e) for e in qf.expressions]])
    return dict(
        sig=_h(text),
        argT=safe(lambda: T.type_repr(qf.args[0].ttype)) or "",
        arg0=safe(lambda: len(qf.args[0])) or 0,
        nargs=len(qf.args),
        nIn=sum(len(a) for a in qf.args),
        retBits=[str(b) for b in qf.returns.bitvec],
        retBool=qf.returns.ttype is bool,
    )


def qf_fp(qf):
    info = qf_info(qf)
    circ = circ_j(qf._qcircuit) if hasattr(qf, "_qcircuit") else None
    inq = safe(lambda: [int(x) for x in qf.input_qubits])
    outq = safe(lambda: [int(x) for x in qf.output_qubits])
    argtypes = [a.ttype for a in qf.args]
    return dict(k="qf", name=qf.name, sig=info["sig"], info=info, circ=circ, inq=inq, outq=outq,
                orig=fn_table(qf.original_f, argtypes))


def unbound_template(o):
    """the state an UnboundQlassf keeps between binds, as text: its parsed function (arguments, body,
    return annotation) and the parameter annotations.  Plain text, not a hash: the names of twin
    functions are put back by text replacement."""
    import ast

    fd = o.fun_ast.body[0]
    return [ast.dump(fd.args), [ast.dump(x) for x in fd.body], ast.dump(fd.returns) if fd.returns is not None else None,
            [[k, ast.dump(v)] for k, v in sorted(o.parameters.items())]]


def unbound_defs(o):
    """the definitions (LogicFun tuples) the closure `_do_translate` translates with at every bind;
    None when the closure does not have that shape"""
    try:
        fn = o._do_translate
        cells = dict(zip(fn.__code__.co_freevars, fn.__closure__ or ()))
        return [[str(d[0]), [str(a) for a in d[1]], str(d[2]), [[str(x), str(e)] for x, e in d[3]]]
                for d in cells["defs"].cell_contents]
    except Exception:  # noqa
        return None


def obj_fp(o, objs):
    if o is None:
        return None
    cn = type(o).__name__
    if cn == "QlassF":
        return qf_fp(o)
    if cn == "UnboundQlassf":
        return dict(k="unb", name=o.fun_ast.body[0].name, params=sorted(o.parameters), tmpl=unbound_template(o),
                    held=unbound_defs(o))
    # an algorithm
    inner = getattr(o, "oracle", None) or getattr(o, "f", None)
    sub = None
    for j, x in enumerate(objs):
        if x is inner and x is not None:
            sub = j
    return dict(k="alg", cls=cn, circ=circ_j(o._qcircuit), outq=safe(lambda: [int(x) for x in o.output_qubits]),
                sub=sub, own=(qf_fp(inner) if sub is None and inner is not None else None))


# --------------------------------------------------------------------------- library state


def _mutable_defaults():
    """(qualified function name, index) -> repr of every list/dict/set default argument in qlasskit"""
    out = {}
    for mname, mod in list(sys.modules.items()):
        if not (mname == "qlasskit" or mname.startswith("qlasskit.")) or mod is None:
            continue
        seen = []
        for v in list(vars(mod).values()):
            if isinstance(v, type) and getattr(v, "__module__", None) == mname:
                seen.extend(x for x in vars(v).values())
            seen.append(v)
        for v in seen:
            f = getattr(v, "__func__", v)
            if isinstance(f, types.FunctionType) and f.__module__ == mname:
                for i, d in enumerate((f.__defaults__ or ())):
                    if isinstance(d, (list, dict, set)):
                        out[f"{mname}.{f.__qualname__}#{i}"] = repr(d)
    return out


class LibState:
    def __init__(self):
        self.mods = {}
        for mname, mod in list(sys.modules.items()):
            if (mname == "qlasskit" or mname.startswith("qlasskit.")) and mod is not None:
                self.mods[mname] = {k: id(v) for k, v in vars(mod).items()}
        self.defaults = _mutable_defaults()

    def diff(self):
        rebound, added = [], []
        for mname, snap in self.mods.items():
            mod = sys.modules.get(mname)
            if mod is None:
                rebound.append(mname + ":<module gone>")
                continue
            cur = vars(mod)
            for k, i in snap.items():
                if k not in cur:
                    rebound.append(f"{mname}:{k}:deleted")
                elif id(cur[k]) != i:
                    rebound.append(f"{mname}:{k}")
            for k in cur:
                if k not in snap:
                    added.append(f"{mname}:{k}")
        d = _mutable_defaults()
        mutated = sorted(k for k in set(d) | set(self.defaults) if d.get(k) != self.defaults.get(k))
        return dict(rebound=sorted(rebound), added=sorted(added), defaults=mutated)


# --------------------------------------------------------------------------- operations


def _load_callable(i, moddir, twin=False):
    """the pool program as a real Python function living in its own module file"""
    p = POOL[i]
    mname = f"c10pool_{'tw' if twin else ''}{i}"
    path = os.path.join(moddir, mname + ".py")
    if not os.path.exists(path):
        with open(path + ".tmp%d" % os.getpid(), "w") as f:
            f.write("from typing import List, Tuple  # noqa\nfrom qlasskit.types import *  # noqa\n"
                    "from qlasskit import Parameter  # noqa\n\n"
                    + (twin_src(i) if twin else p["src"]) + "\n")
        os.replace(path + ".tmp%d" % os.getpid(), path)
    if moddir not in sys.path:
        sys.path.insert(0, moddir)
    mod = importlib.import_module(mname)
    return getattr(mod, TWINS.get(p["name"], p["name"]) if twin else p["name"])


def parse_elem(s):
    return True if s == "True" else False if s == "False" else int(s)


def export_canon(obj, fw):
    r = obj.export(fw)
    if fw == "qiskit":
        return [[ins.operation.name, [r.find_bit(q).index for q in ins.qubits],
                 [repr(x) for x in ins.operation.params]] for ins in r.data]
    return str(r)


def _tt_val(x):
    try:
        return "T" if bool(x) else "F"
    except Exception:  # noqa  (a sympy expression that did not reduce to a constant)
        return str(x)


def do_op(op, objs, moddir, twin=False):
    """returns (object that lives on | None, result value of a read-only operation | None)"""
    import qlasskit
    from qlasskit import algorithms as A

    k = op["k"]
    if k == "compile":
        i = op["prog"]
        src = POOL[i]["src"] if not twin else twin_src(i)
        defs = [objs[r] for r in op["defs"]]
        for r, nm in (op.get("rename_defs") or {}).items():
            objs[int(r)].name = nm  # baseline construction only: a definition under another name
        f = _load_callable(i, moddir, twin) if op.get("callable") else src
        if defs:
            return qlasskit.qlassf(f, defs=defs), None
        return qlasskit.qlassf(f), None
    if k == "secret_oracle":
        from qlasskit.algorithms.bernsteinvazirani import secret_oracle

        return secret_oracle(op["n"], op["secret"]), None
    o = objs[op["ref"]]
    if k == "bind":
        return o.bind(**op["params"]), None
    if k == "oraclize":
        if op.get("rename_ref"):
            o.name = op["rename_ref"]
        return A.oraclize(o, parse_elem(op["elem"])), None
    if k == "grover":
        e = op.get("elem")
        return A.Grover(o, parse_elem(e) if e is not None else None, n_iterations=op["iters"]), None
    if k == "dj":
        return A.DeutschJozsa(o), None
    if k == "simon":
        return A.Simon(o), None
    if k == "bv":
        return A.BernsteinVazirani(o), None
    if o is None:
        raise RuntimeError("operation on an object that does not exist")
    if k.startswith("export_"):
        return None, export_canon(o, k[len("export_"):])
    if k == "decompile":
        from qlasskit.decompiler import Decompiler

        return None, repr(Decompiler().decompile(o.circuit()))
    if k == "truth_table":
        return None, [[_tt_val(x) for x in row] for row in o.truth_table()]
    if k == "repr":
        return None, re.sub(r"0x[0-9a-f]+", "0x?", repr(o))
    if k == "qc_copy":
        return None, circ_j(o.circuit().copy())
    raise RuntimeError("unknown op " + k)


def run_history(job):
    """execute the operations in order in THIS process; after each one: status, result, the
    fingerprints that changed, library state"""
    from . import common

    common.use_repo()
    importlib.import_module("qlasskit")
    importlib.import_module("qlasskit.algorithms")
    importlib.import_module("qlasskit.decompiler")
    lib = LibState()
    objs, prev, steps = [], [], []
    for op in job["ops"]:
        st = dict(status="ok", exc=None, result=None)
        obj = None
        try:
            if any(objs[r] is None for r in op_refs(op)):
                raise RuntimeError("operation on an object that does not exist")
            obj, st["result"] = do_op(op, objs, job["moddir"], bool(job.get("twin_all")))
        except Exception as e:  # noqa
            st["status"] = "raised"
            st["exc"] = f"{type(e).__name__}: {str(e)[:120]}"
        objs.append(obj)
        cur, changed = [], {}
        for j, o in enumerate(objs):
            fp = obj_fp(o, objs)
            txt = json.dumps(fp, sort_keys=True)
            cur.append(txt)
            if j >= len(prev) or prev[j] != txt:
                changed[str(j)] = fp
        prev = cur
        st["fps"] = changed
        st["lib"] = lib.diff()
        steps.append(st)
    return dict(steps=steps)


def op_refs(op):
    if op["k"] == "compile":
        return list(op["defs"])
    if op["k"] == "secret_oracle":
        return []
    return [op["ref"]]


# --------------------------------------------------------------------------- reference semantics


def _src_text(src):
    kind = src[0]
    if kind == "pool":
        return POOL[src[1]]["src"], POOL[src[1]]["name"], POOL[src[1]]["callees"], POOL[src[1]]["argtypes"]
    if kind == "bound":
        p = POOL[src[1]]
        return p["src"], p["name"], p["callees"], p["argtypes"]
    if kind == "oraclize":
        _, callee, argt, elem = src
        return (f"def oracle(v: {argt}) -> bool:\n   return {callee}(v) == {elem}", "oracle", [callee], [argt])
    if kind == "secret":
        _, n, s = src
        f = f"def oracle(x: Qint[{n}]) -> bool:\n  s=Qint{n}({s})\n  return ("
        f += "^".join(f"(x[{i}]&s[{i}])" for i in range(n)) + ")"
        return f, "oracle", [], [f"Qint{n}"]
    raise ValueError(kind)


def ref_function(tree):
    """the Python function a source denotes when each free name is bound to the given sub-function:
    plain exec in a private namespace holding only the qlasskit types (no qlasskit exec/eval logic)"""
    if tree == "notcallable":
        return None, None
    if tree == "diverges":
        def _diverges(*a, **k):
            raise RecursionError("maximum recursion depth exceeded")

        return _diverges, None
    if "missing" in tree:
        return "missing", None
    text, name, callees, argtypes = _src_text(tree["src"])
    T = importlib.import_module("qlasskit.types")
    ns = {k: v for k, v in vars(T).items() if not k.startswith("_")}
    ns["Parameter"] = importlib.import_module("qlasskit").Parameter
    lib = vars(importlib.import_module("qlasskit.qlassfun"))  # pristine here: no history ran in this import
    for c, kid in zip(callees, tree["kids"]):
        fn, _ = ref_function(kid)
        if fn not in (None, "missing"):
            ns[c] = fn
        elif fn is None:
            ns[c] = "<not a function>"
        elif c in lib:
            # a free name that no user function provides falls through to whatever the module
            # qlasskit.qlassfun itself binds under that name (only quirk-model trees have this)
            ns[c] = lib[c]
    exec(text, ns)
    fn = ns[name]
    if tree["src"][0] == "bound":
        import functools

        import ast

        # the parameters by keyword, the remaining arguments in the order the source declares them
        # (a Parameter may come first)
        pv = json.loads(tree["src"][2])
        rest = [a.arg for a in ast.parse(text).body[0].args.args if a.arg not in pv]
        fn = functools.partial(lambda *args, _f=fn, _pv=pv, _rest=rest: _f(**dict(zip(_rest, args)), **_pv))
    return fn, [type_by_name(t) for t in argtypes]


def eval_trees(job):
    from . import common

    common.use_repo()
    out = []
    for tree in job["trees"]:
        try:
            fn, argtypes = ref_function(tree)
            out.append("notcallable" if fn is None else fn_table(fn, argtypes))
        except Exception as e:  # noqa
            out.append("reference-error:" + type(e).__name__ + ":" + str(e)[:80])
    return dict(tables=out)


def lib_names(job):
    """names bound in the pristine module qlasskit.qlassfun"""
    from . import common

    common.use_repo()
    m = importlib.import_module("qlasskit.qlassfun")
    import builtins

    return dict(names=sorted(vars(m)), builtins=sorted(vars(builtins)))


JOBS = dict(history=run_history, trees=eval_trees, libnames=lib_names)


def purge():
    """forget every qlasskit module (and the pool's callables, which hold its classes): the next
    import executes the library's module bodies again -> pristine namespaces, defaults, classes"""
    for name in list(sys.modules):
        if name == "qlasskit" or name.startswith("qlasskit.") or name.startswith("c10pool_"):
            del sys.modules[name]


def run_jobs(jobs):
    """several jobs in this child, the library re-imported from scratch before each"""
    out = []
    for j in jobs:
        purge()
        out.append(run_job(j))
    return out


def run_job(job):
    try:
        return JOBS[job["job"]](job)
    except Exception as e:  # noqa
        import traceback

        return dict(worker_error=f"{type(e).__name__}: {e}", tb=traceback.format_exc()[-1500:])


if __name__ == "__main__":
    if "--serve" in sys.argv:
        out = os.fdopen(os.dup(1), "w")
        sys.stdout = sys.stderr  # whatever the library prints must not corrupt the reply stream
        import sympy  # noqa: F401  (third-party, loaded once; qlasskit itself is re-imported per job)

        for line in sys.stdin:
            if not line.strip():
                continue
            out.write(json.dumps(run_jobs(json.loads(line))) + "\n")
            out.flush()
    else:
        print(json.dumps(run_job(json.loads(sys.stdin.read()))))
