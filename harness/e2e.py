"""Which Grover / Deutsch-Jozsa / Bernstein-Vazirani / Simon instances of a run are covered *end to end*
by the Lean theorems `C15_end_to_end_fragment` / `C16_end_to_end_fragment`?

Those theorems speak of the gate list the *compiler model* produces for a definition list of the decidable
class `inXorFragment` (one definition, one return bit, tree-like expression over the argument bits).  For an
instance of a run this module

* logs the ancilla choices of the real compilation of the oracle / black box (`ChoiceLog`),
* asks the model (driver op `c15.oracle_class`) whether the oracle's definition list is in the class and, if
  so, for the gate list the compiler model emits on the logged choices,
* compares that gate list (canonical form of `compiler_common.canon_gates`), the number of qubits and the
  qubit of the return name with the oracle circuit the algorithm object embeds.

`covered` = in the class of the `…_fragment` theorems (`inXorFragment`) or of the `…_general` theorems
(`inGeneralClean` + their side conditions, evaluated by the driver on the model's output) and the model's
compilation *is* the oracle of the instance; then the proved distribution is a theorem about exactly the gate
list of this instance (the algorithm's gate list around the
oracle is compared separately by `c15.gates` / `c16.gates`)."""
from __future__ import annotations

from .compiler_common import Unsupported, canon_gates, exprs_to_json


class ChoiceLog:
    """context manager: log `QCircuitEnhanced.get_free_ancilla` per circuit object"""

    def __enter__(self):
        from qlasskit.qcircuit import QCircuitEnhanced

        self._cls = QCircuitEnhanced
        self._orig = QCircuitEnhanced.get_free_ancilla
        self._by_qc = {}  # id -> (object kept alive, choices)
        log = self

        def logged(qc):
            r = log._orig(qc)
            log._by_qc.setdefault(id(qc), (qc, []))[1].append(r)
            return r

        QCircuitEnhanced.get_free_ancilla = logged
        return self

    def __exit__(self, *a):
        self._cls.get_free_ancilla = self._orig
        return False

    def choices_of(self, qc):
        ent = self._by_qc.get(id(qc))
        return list(ent[1]) if ent is not None and ent[0] is qc else []


def request(qf, log):
    """the `c15.oracle_class` request for a compiled QlassF, or None (expression outside the JSON form)"""
    try:
        ej = exprs_to_json(qf.expressions)
    except Unsupported:
        return None
    inputs = [b for a in qf.args for b in a.bitvec]
    rets = list(qf.returns.bitvec)
    req = dict(op="c15.oracle_class", inputs=inputs, exprs=ej, ret=rets)
    if log is not None:
        req["choices"] = log.choices_of(qf._qcircuit)
    return req


def verdict(rep, oracle_gates, num_qubits, ret_qubits, kind="xor"):
    """(status, detail).  `kind` = "xor" (Grover, Deutsch-Jozsa, Bernstein-Vazirani: the one-bit xor-oracle theorems)
    or "fun" (Simon: `C16_end_to_end_simon_general` for any number of return bits, or the one-bit theorems).
    status: 'outside' | 'covered-fragment' (class of the `…_fragment` theorems) | 'covered-general' (only the
    `…_general` theorems apply, side conditions evaluated on the model's output) | 'mismatch'"""
    if rep is None or "driver_error" in rep:
        return "mismatch", dict(error=(rep or {}).get("driver_error", "no reply"))
    if not (rep.get("in_xor_fragment") or rep.get("in_general_clean")):
        return "outside", None
    if "error" in rep:
        return "mismatch", dict(error=rep["error"])
    if "gates" not in rep:
        return "outside", None  # no choices were sent: membership only
    mg, cg = canon_gates(rep["gates"]), canon_gates(oracle_gates)
    if mg != cg or rep.get("num_qubits") != num_qubits or rep.get("ret_qubits") != list(ret_qubits) \
            or rep.get("choices_left"):
        return "mismatch", dict(model=dict(gates=mg, num_qubits=rep.get("num_qubits"), ret_qubits=rep.get("ret_qubits"),
                                           choices_left=rep.get("choices_left")),
                                code=dict(gates=cg, num_qubits=num_qubits, ret_qubits=list(ret_qubits)))
    if rep.get("in_xor_fragment"):
        return "covered-fragment", None
    if rep.get("xor_general") or (kind == "fun" and rep.get("fun_general")):
        return "covered-general", None
    return "outside", None


class Tally:
    def __init__(self):
        self.total = 0
        self.covered = 0           # by any end-to-end theorem
        self.covered_fragment = 0  # by the `…_fragment` theorems (the count before the general class)
        self.no_form = 0
        self.by = {}

    def add(self, status, key=None):
        self.total += 1
        cov = status in ("covered-fragment", "covered-general")
        if cov:
            self.covered += 1
        if status == "covered-fragment":
            self.covered_fragment += 1
        if status == "no-form":
            self.no_form += 1
        if key is not None:
            t = self.by.setdefault(key, [0, 0, 0])
            t[2] += 1
            if cov:
                t[1] += 1
            if status == "covered-fragment":
                t[0] += 1

    def by_text(self):
        return ", ".join(f"{k}: {f}->{c}/{n}" for k, (f, c, n) in sorted(self.by.items()))
