"""Shared machinery of the qlasskit verification checks.

One check run (see DESIGN.md section 2.5):
  1. regenerate lean/QV/Gen/Tables.lean from the *current* /repo sources (extract.py)
  2. build the model driver and the property's theorems (lake), under a file lock
  3. audit the axioms of every theorem in QV/Props/<id>.lean, grep forbidden tokens
  4. replay the known findings' witnesses on the real code -> active quirks
  5. run the property module: always-on failing-input search on the real code +
     correspondence model <-> code
  6. decide, print VIOLATION / KNOWN-FINDING lines, write evidence/<id>.json
"""
from __future__ import annotations

import fcntl
import hashlib
import json
import os
import random
import re
import subprocess
import sys
import time
import traceback

VERIF = os.path.dirname(os.path.dirname(os.path.abspath(__file__)))
LEAN = os.path.join(VERIF, "lean")
REPO = os.environ.get("QV_REPO", "/repo")
DRIVER = os.path.join(LEAN, ".lake", "build", "bin", "qvdriver")
ALLOWED_AXIOMS = {"propext", "Classical.choice", "Quot.sound"}
FORBIDDEN = re.compile(
    r"\b(sorry|admit|native_decide|bv_decide|implemented_by|unsafe)\b|^\s*axiom\s|maxHeartbeats\s+0\b"
)

TRUSTED_BASE = [
    "Lean 4.33.0 kernel; axioms allowed: propext, Classical.choice, Quot.sound (audited every run with #print axioms)",
    "Lean compiler/runtime for the executable side of the model (qvdriver): correspondence results are computed, not kernel-checked",
    "harness/extract.py (Python ast -> QV/Gen/Tables.lean) and the correspondence harness incl. canonicalisers",
    "all of qlasskit is modelled (QV/Model/*), not verified directly; the tie is the regenerated tables plus the model<->code correspondence of this run",
]


def use_repo():
    """Make `import qlasskit` resolve to REPO (the editable install already points at /repo)."""
    if REPO not in sys.path:
        sys.path.insert(0, REPO)


# --------------------------------------------------------------------------- lean side


class LeanStatus:
    def __init__(self):
        self.extract_ok = True
        self.extract_msg = ""
        self.driver_ok = True
        self.props_ok = True
        self.build_msg = ""
        self.theorems = []  # names
        self.axioms = {}  # name -> list
        self.bad_axioms = {}  # name -> list of not-allowed axioms
        self.forbidden_hits = []
        self.audit_ok = True
        self.audit_msg = ""
        self.leanchecker = None

    @property
    def proofs_ok(self):
        return (
            self.extract_ok
            and self.props_ok
            and self.audit_ok
            and not self.bad_axioms
            and not self.forbidden_hits
            and len(self.theorems) > 0
        )

    def broken_what(self):
        out = []
        if not self.extract_ok:
            out.append("extractor: " + self.extract_msg[:400])
        if not self.driver_ok:
            out.append("model/driver build: " + self.build_msg[-1500:])
        if not self.props_ok:
            out.append("theorems no longer check: " + self.build_msg[-1500:])
        if not self.audit_ok:
            out.append("audit: " + self.audit_msg[-600:])
        if self.bad_axioms:
            out.append("non-standard axioms: " + json.dumps(self.bad_axioms))
        if self.forbidden_hits:
            out.append("forbidden tokens: " + "; ".join(self.forbidden_hits[:5]))
        return out


def _strip_comments(src: str) -> str:
    # remove /- ... -/ (nested not handled beyond one level, fine for our files) and -- comments
    out = []
    i = 0
    depth = 0
    n = len(src)
    while i < n:
        if src.startswith("/-", i):
            depth += 1
            i += 2
        elif depth and src.startswith("-/", i):
            depth -= 1
            i += 2
        elif depth:
            if src[i] == "\n":
                out.append("\n")
            i += 1
        elif src.startswith("--", i):
            while i < n and src[i] != "\n":
                i += 1
        else:
            out.append(src[i])
            i += 1
    return "".join(out)


def lean_modules_of(prop: str):
    """Transitive QV.* imports of QV/Props/<prop>.lean as file paths."""
    seen = {}
    todo = [f"QV.Props.{prop}"]
    while todo:
        m = todo.pop()
        if m in seen:
            continue
        p = os.path.join(LEAN, *m.split(".")) + ".lean"
        if not os.path.exists(p):
            continue
        seen[m] = p
        for line in open(p):
            mm = re.match(r"\s*import\s+(QV\.[\w.]+)", line)
            if mm:
                todo.append(mm.group(1))
    return seen


def prepare_lean(prop: str, tier: str, log) -> LeanStatus:
    st = LeanStatus()
    os.makedirs(os.path.join(LEAN, ".lake"), exist_ok=True)
    lockf = open(os.path.join(LEAN, ".lake", "qv.lock"), "w")
    fcntl.flock(lockf, fcntl.LOCK_EX)
    try:
        # 1. tables from source
        try:
            from . import extract

            extract.write_tables(REPO, os.path.join(LEAN, "QV", "Gen", "Tables.lean"))
        except Exception as e:  # broken tie, handled by the caller
            st.extract_ok = False
            st.extract_msg = f"{type(e).__name__}: {e}"
            log(f"[lean] extractor failed: {st.extract_msg}")
        # 2. build
        t0 = time.time()
        r = subprocess.run(
            ["lake", "build", "qvdriver"], cwd=LEAN, capture_output=True, text=True
        )
        if r.returncode != 0:
            st.driver_ok = False
            st.build_msg = (r.stdout + r.stderr)[-4000:]
            log("[lean] driver build FAILED")
        r = subprocess.run(
            ["lake", "build", f"QV.Props.{prop}"], cwd=LEAN, capture_output=True, text=True
        )
        if r.returncode != 0:
            st.props_ok = False
            st.build_msg += (r.stdout + r.stderr)[-4000:]
            log(f"[lean] QV.Props.{prop} build FAILED")
        log(f"[lean] build {time.time() - t0:.1f}s driver_ok={st.driver_ok} props_ok={st.props_ok}")
        # 3. audit
        props_file = os.path.join(LEAN, "QV", "Props", f"{prop}.lean")
        src = _strip_comments(open(props_file).read())
        ns = None
        m = re.search(r"^namespace\s+(\S+)", src, re.M)
        if m:
            ns = m.group(1)
        st.theorems = re.findall(r"^\s*theorem\s+([^\s:({\[]+)", src, re.M)
        if st.props_ok and st.theorems:
            audit = os.path.join(LEAN, ".lake", f"audit_{prop}.lean")
            with open(audit, "w") as f:
                f.write(f"import QV.Props.{prop}\n")
                for t in st.theorems:
                    f.write(f"#print axioms {ns + '.' if ns else ''}{t}\n")
            r = subprocess.run(
                ["lake", "env", "lean", audit], cwd=LEAN, capture_output=True, text=True
            )
            out = r.stdout + r.stderr
            if r.returncode != 0:
                st.audit_ok = False
                st.audit_msg = out
            else:
                flat = re.sub(r"\s+", " ", out)
                for t in st.theorems:
                    full = f"{ns + '.' if ns else ''}{t}"
                    m1 = re.search(
                        r"'" + re.escape(full) + r"' depends on axioms: \[([^\]]*)\]", flat
                    )
                    m2 = re.search(
                        r"'" + re.escape(full) + r"' does not depend on any axioms", flat
                    )
                    if m1:
                        ax = [a.strip() for a in m1.group(1).split(",") if a.strip()]
                    elif m2:
                        ax = []
                    else:
                        st.audit_ok = False
                        st.audit_msg += f"no axiom report for {full}\n"
                        continue
                    st.axioms[t] = ax
                    bad = [a for a in ax if a not in ALLOWED_AXIOMS]
                    if bad:
                        st.bad_axioms[t] = bad
        # forbidden tokens in every module the property depends on
        for mod, path in lean_modules_of(prop).items():
            body = _strip_comments(open(path).read())
            for ln, line in enumerate(body.split("\n"), 1):
                if FORBIDDEN.search(line):
                    st.forbidden_hits.append(f"{mod}:{ln}: {line.strip()[:80]}")
        # 4. thorough: independent re-check of the compiled modules
        if tier == "thorough" and st.props_ok and os.environ.get("QV_SKIP_LEANCHECKER") != "1":
            mods = sorted(lean_modules_of(prop).keys())
            t1 = time.time()
            r = subprocess.run(
                ["lake", "env", "leanchecker"] + mods, cwd=LEAN, capture_output=True, text=True
            )
            st.leanchecker = {
                "modules": mods,
                "ok": r.returncode == 0,
                "wall_s": round(time.time() - t1, 1),
            }
            if r.returncode != 0:
                st.audit_ok = False
                st.audit_msg += "leanchecker: " + (r.stdout + r.stderr)[-800:]
    finally:
        fcntl.flock(lockf, fcntl.LOCK_UN)
        lockf.close()
    return st


def run_driver(requests):
    """Send JSON requests (list of dict) to qvdriver, return list of replies (dict)."""
    if not requests:
        return []
    data = "\n".join(json.dumps(r, separators=(",", ":")) for r in requests) + "\n"
    r = subprocess.run([DRIVER], input=data, capture_output=True, text=True)
    if r.returncode != 0:
        raise RuntimeError(f"qvdriver exit {r.returncode}: {r.stderr[-800:]}")
    lines = [l for l in r.stdout.split("\n") if l.strip()]
    if len(lines) != len(requests):
        raise RuntimeError(f"qvdriver returned {len(lines)} replies for {len(requests)} requests")
    return [json.loads(l) for l in lines]


# --------------------------------------------------------------------------- findings


def load_findings(prop: str):
    p = os.path.join(VERIF, "known_findings.json")
    if not os.path.exists(p):
        return []
    data = json.load(open(p))
    return [f for f in data.get("findings", []) if f.get("property") == prop]


# --------------------------------------------------------------------------- result


def case_hash(obj) -> str:
    return hashlib.sha1(json.dumps(obj, sort_keys=True, default=str).encode()).hexdigest()[:12]


class Result:
    """What a property module reports back."""

    def __init__(self, prop):
        self.prop = prop
        self.evaluations = 0
        self.case_hashes = set()
        self.nontrivial_hashes = set()
        self.samples = []
        self.violations = []  # dict(case=..., what=..., code=..., model=..., expected=...)
        self.disagreements = []  # correspondence: dict(case=..., code=..., model=...)
        self.known_hits = {}  # finding id -> count
        self.stale_fixed = []  # fixed findings that fail again -> violations
        self.active_quirks = []
        self.histogram = {}
        self.notes = []
        self.rule = ""
        self.exhaustive = False
        self.extra = {}
        self.assumptions = []

    def count(self, case, nontrivial=True, bucket=None):
        self.evaluations += 1
        h = case_hash(case)
        self.case_hashes.add(h)
        if nontrivial:
            self.nontrivial_hashes.add(h)
        if bucket is not None:
            self.histogram[bucket] = self.histogram.get(bucket, 0) + 1
        if len(self.samples) < 6 and (self.evaluations in (1, 7, 50, 400, 3000, 20000)):
            self.samples.append(case)

    def violation(self, case, what, **kw):
        if len(self.violations) < 50:
            d = dict(case=case, what=what)
            d.update(kw)
            self.violations.append(d)

    def disagree(self, case, what, **kw):
        if len(self.disagreements) < 50:
            d = dict(case=case, what=what)
            d.update(kw)
            self.disagreements.append(d)

    def known(self, fid):
        self.known_hits[fid] = self.known_hits.get(fid, 0) + 1


class Ctx:
    def model(self, requests):
        """Run the model driver; None when the model no longer builds (broken tie)."""
        if self.lean is not None and not self.lean.driver_ok:
            return None
        return run_driver(requests)

    def __init__(self, prop, tier, seed):
        self.prop = prop
        self.tier = tier
        self.seed = seed
        self.rng = random.Random(f"{prop}-{seed}")
        self.t0 = time.time()
        self.lean: LeanStatus | None = None
        self.findings = load_findings(prop)
        self.logs = []

    def log(self, msg):
        self.logs.append(msg)
        print(msg, file=sys.stderr, flush=True)

    @property
    def thorough(self):
        return self.tier == "thorough"


def write_replay(prop, payload) -> str:
    d = os.path.join(VERIF, "replays")
    os.makedirs(d, exist_ok=True)
    h = case_hash(payload)
    p = os.path.join(d, f"{prop}-{h}.json")
    with open(p, "w") as f:
        json.dump(payload, f, indent=1, default=str)
    return p


def finish(ctx: Ctx, res: Result, level="proof") -> int:
    """Decide, print lines, write evidence.  Returns the exit status."""
    st = ctx.lean
    exit_code = 0
    cmdline = f"./check {ctx.prop} --tier {ctx.tier}"
    # known findings
    for f in ctx.findings:
        fid = f["id"]
        status = f.get("status", "open")
        if status == "open" and f.get("_active"):
            print(f"KNOWN-FINDING: property={ctx.prop} {f['what']} ({f['site']}) [{fid}; cases hit this run: {res.known_hits.get(fid, 0)}]")
    # violations found on the real code
    if res.violations:
        v = res.violations[0]
        p = write_replay(
            ctx.prop,
            dict(property=ctx.prop, kind="failing-input", seed=ctx.seed, tier=ctx.tier,
                 command=cmdline, first=v, others=res.violations[1:10]),
        )
        print(f"VIOLATION property={ctx.prop} replay={p}")
        exit_code = 1
    else:
        broken = st.broken_what() if st else []
        if not (st and st.proofs_ok and st.driver_ok) or res.disagreements:
            payload = dict(
                property=ctx.prop, kind="tie-broken", seed=ctx.seed, tier=ctx.tier, command=cmdline,
                broken=broken,
                theorems=st.theorems if st else [],
                correspondence_disagreements=res.disagreements[:10],
                note="no input on which the real code violates the property was found in this run; "
                     "the property is no longer shown to hold because the proof obligations or the "
                     "model<->code correspondence named here no longer check",
            )
            p = write_replay(ctx.prop, payload)
            print(f"VIOLATION property={ctx.prop} replay={p} no-failing-input-found")
            exit_code = 1
    # evidence
    obligations = len(st.theorems) if st else 0
    discharged = (
        sum(1 for t in st.theorems if t in st.axioms and t not in st.bad_axioms)
        if st and st.props_ok
        else 0
    )
    cov = dict(
        obligations=obligations,
        discharged=discharged,
        checker_cmd=f"cd lean && lake build QV.Props.{ctx.prop} && lake env lean .lake/audit_{ctx.prop}.lean  (#print axioms of each theorem)"
        + ("; lake env leanchecker <modules>" if ctx.thorough else ""),
        trusted_base=TRUSTED_BASE + res.assumptions,
        theorems={t: st.axioms.get(t) for t in st.theorems} if st else {},
        evaluations=res.evaluations,
        distinct_nontrivial=len(res.nontrivial_hashes),
        distinct=len(res.case_hashes),
        rule=res.rule,
        samples=res.samples[:6],
        exhaustive=res.exhaustive,
        histogram=res.histogram,
        active_quirks=res.active_quirks,
        known_findings_hit=res.known_hits,
        correspondence_disagreements=len(res.disagreements),
        failing_inputs=len(res.violations),
        notes=res.notes,
    )
    if st and st.leanchecker:
        cov["leanchecker"] = st.leanchecker
    cov.update(res.extra)
    ev = dict(
        property_id=ctx.prop,
        tier=ctx.tier,
        seed=ctx.seed,
        level=level,
        coverage=cov,
        assumptions=TRUSTED_BASE + res.assumptions,
        wall_s=round(time.time() - ctx.t0, 2),
        violations=(1 if exit_code == 1 else 0),
    )
    os.makedirs(os.path.join(VERIF, "evidence"), exist_ok=True)
    with open(os.path.join(VERIF, "evidence", f"{ctx.prop}.json"), "w") as f:
        json.dump(ev, f, indent=1, default=str)
    print(
        f"[{ctx.prop}] tier={ctx.tier} seed={ctx.seed} theorems={discharged}/{obligations} "
        f"evaluations={res.evaluations} distinct_nontrivial={len(res.nontrivial_hashes)} "
        f"disagreements={len(res.disagreements)} failing_inputs={len(res.violations)} "
        f"known={res.known_hits} wall={ev['wall_s']}s exit={exit_code}",
        file=sys.stderr,
    )
    return exit_code


def main(prop_module, prop, argv=None):
    import argparse

    ap = argparse.ArgumentParser()
    ap.add_argument("--tier", default=os.environ.get("VERIF_TIER", "quick"))
    ap.add_argument("--replay", default=None)
    ap.add_argument("--seed", type=int, default=int(os.environ.get("VERIF_SEED", "0") or 0))
    a = ap.parse_args(argv)
    tier = a.tier if a.tier in ("quick", "thorough") else "quick"
    ctx = Ctx(prop, tier, a.seed)
    use_repo()
    try:
        ctx.lean = prepare_lean(prop, tier, ctx.log)
        if a.replay:
            return prop_module.replay(ctx, json.load(open(a.replay)))
        # replay the witnesses of the listed findings on the real code
        stale = []
        wf = getattr(prop_module, "witness_fails", None)
        for f in ctx.findings:
            fails = None
            if wf is not None:
                try:
                    fails = wf(ctx, f)
                except Exception as e:  # noqa
                    ctx.log(f"[findings] witness replay of {f['id']} raised {type(e).__name__}: {e}")
                    fails = None
            if f.get("status", "open") == "open":
                f["_active"] = bool(fails)
            elif fails:
                stale.append(f)
        res = prop_module.run(ctx)
        for f in stale:
            res.violation(dict(finding=f["id"], witness=f.get("witness")),
                          "a defect recorded as fixed fails again: " + f["what"])
        res.active_quirks = sorted({f.get("quirk") for f in ctx.findings if f.get("_active") and f.get("quirk")})
        return finish(ctx, res, level=getattr(prop_module, "LEVEL", "proof"))
    except Exception:
        traceback.print_exc()
        print(f"[{prop}] internal error of the checking machinery (exit 2, not a verdict)", file=sys.stderr)
        return 2
