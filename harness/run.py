import importlib
import sys

from . import common


def main():
    if len(sys.argv) < 2:
        print("usage: check Cxx [--tier quick|thorough] [--replay f]", file=sys.stderr)
        return 2
    prop = sys.argv[1].upper()
    try:
        mod = importlib.import_module(f"harness.{prop.lower()}")
    except ModuleNotFoundError as e:
        print(f"no check for {prop}: {e}", file=sys.stderr)
        return 2
    return common.main(mod, prop, sys.argv[2:])


if __name__ == "__main__":
    sys.exit(main())
