"""C05 - values survive the encode -> circuit -> decode round trip.

Always-on search on the real code, end to end on REAL compiled functions: generated signatures
(1-3 arguments; bool, Qint, Qchar, Qfixed, Tuple, Qlist, nested) and return expressions
(identity, tuple displays, re-grouping, local tuple variables, a few scalar operators); for each
program all argument values (<= 2^10, else sampled):

  encode_input(v)  ==  own little-endian flattening of v, reversed          (independent oracle)
  input_qubits == [0..n), qubit_map[k-th argument bit name] == k, names by own naming function
  output_qubits == [qubit_map[name] for the own names of the return type], in range
  run the real gates (harness/circ.py classical simulator) from the encoded basis state,
  read output_qubits (first listed qubit rightmost), decode_output  ==  f(v) computed by
  exec'ing the source on plain ints/bools/tuples
  decode_output(str / list / int reading of own encoding of f(v)) == f(v)
  two output bits on one qubit => equal on every input;  decode_counts vs own merge.
  argument purity and repeatability of the codec API: encode_input, decode_output, decode_counts,
  format_outcome, interpret_as_qtype are each called TWICE on the same argument objects (value objects,
  tuples written as lists, List[bool] / str / int readings of exact, shorter and longer length, with and
  without out_len, counts dicts): own snapshot of the objects before == after each call, result 1 ==
  result 2 (== the own oracle's value where the property defines one); the QlassF itself is unchanged.

Compile-time configurations: the property quantifies over how the function is translated and compiled, so every
systematic program is compiled under both shipped optimizer profiles (defaultOptimizer, fastOptimizer) x uncompute
on / off.  `qmap_programs` are the statement forms that change the compiler's qubit map (argument re-bound once /
twice / in if / in for, copied, returned, unused, used late, augmented assignment, tuple element re-bound, names
aliased / swapped): under fastOptimizer the assignments reach the compiler and an argument NAME moves to a work
qubit, while the argument BIT stays on qubit k.  On each: input_qubits == range(n), input_size == n (also against
the Lean model, `input_qubits_range`), the qubit-map entry of every argument bit name against the compiler model,
and the round trip through the REPORTED input_qubits / output_qubits.

Histories on ONE QlassF object (`history_programs`, `HISTORIES`, `check_history`): programs whose layout differs between
uncompute on and off; compile() again under the other flag / the same flag, reads in between, a function compiled
late, two objects from the same source.  After every step every live object: every observable read twice, == the
circuit held now, == a fresh object compiled with the same options, all values round-tripped through the REPORTED
qubits, compiler model on the choices of the latest compile().

A round-trip mismatch with all codec-side checks passing is a front-end (C01) or compiler (C02)
failure: decided by evaluating qf.expressions against the circuit run with the k-th argument bit ON QUBIT k (what C02
states), counted and skipped here; a mismatch that is only there when the string is loaded on the reported
input_qubits is a failing input of this property.
Correspondence: the same data through the Lean model (QV.Model.Codec), compared exactly.
"""
from __future__ import annotations

import __future__
import importlib
import itertools
import json
import random

from . import circ, e2e
from .c09 import bstr, code_val_to_json, ty_size
from .common import Ctx, Result
from .compiler_common import Unsupported, canon_gates, exprs_to_json

LEVEL = "proof"

# --------------------------------------------------------------------------- own oracle


def own_names(tj, base):
    """bit names the property expects: bool -> base; scalar -> base.i; tuple -> elements at base.k"""
    k = tj[0]
    if k == "bool":
        return [base]
    if k == "tuple":
        out = []
        for i, t in enumerate(tj[1:]):
            out += own_names(t, f"{base}.{i}")
        return out
    return [f"{base}.{i}" for i in range(ty_size(tj))]


def own_flat(tj, vj):
    """little-endian flat encoding of a canonical value"""
    k = tj[0]
    if k == "bool":
        return [bool(vj["b"])]
    if k == "qint":
        return [bool((vj["i"] >> i) & 1) for i in range(tj[1])]
    if k == "qchar":
        return [bool((vj["c"] >> i) & 1) for i in range(8)]
    if k == "qfixed":
        i_, f_ = tj[1], tj[2]
        sv = vj["f"]
        ip, fp = sv >> f_, sv & ((1 << f_) - 1)
        return [bool((ip >> i) & 1) for i in range(i_)] + [bool((fp >> (f_ - 1 - i)) & 1) for i in range(f_)]
    out = []
    for t, v in zip(tj[1:], vj["t"]):
        out += own_flat(t, v)
    return out


def own_unflat(tj, bits):
    """inverse of own_flat"""
    k = tj[0]
    if k == "bool":
        return {"b": bool(bits[0])}
    if k == "qint":
        return {"i": sum(1 << i for i in range(tj[1]) if bits[i])}
    if k == "qchar":
        return {"c": sum(1 << i for i in range(8) if bits[i])}
    if k == "qfixed":
        i_, f_ = tj[1], tj[2]
        ip = sum(1 << i for i in range(i_) if bits[i])
        fp = sum(1 << (f_ - 1 - i) for i in range(f_) if bits[i_ + i])
        return {"f": (ip << f_) + fp}
    out, off = [], 0
    for t in tj[1:]:
        n = ty_size(t)
        out.append(own_unflat(t, bits[off:off + n]))
        off += n
    return {"t": out}


def plain_value(tj, vj):
    """value handed to the exec'd Python function: plain int / bool / str / float / tuple"""
    k = tj[0]
    if k == "bool":
        return vj["b"]
    if k == "qint":
        return vj["i"]
    if k == "qchar":
        return chr(vj["c"])
    if k == "qfixed":
        return vj["f"] / 2 ** tj[2]
    return tuple(plain_value(t, v) for t, v in zip(tj[1:], vj["t"]))


def canon_result(tj, x):
    """result of the plain Python function in the return type"""
    k = tj[0]
    if k == "bool":
        return {"b": bool(x)}
    if k == "qint":
        return {"i": int(x) % 2 ** tj[1]}
    if k == "qchar":
        return {"c": ord(x)}
    if k == "qfixed":
        return {"f": int(x * 2 ** tj[2]) % 2 ** (tj[1] + tj[2])}
    return {"t": [canon_result(t, e) for t, e in zip(tj[1:], x)]}


def lib_value(T, tj, vj):
    """value handed to the real encode_input"""
    k = tj[0]
    if k == "bool":
        return vj["b"]
    if k == "qint":
        return getattr(T, f"Qint{tj[1]}")(vj["i"])
    if k == "qchar":
        return T.Qchar(chr(vj["c"]))
    if k == "qfixed":
        return getattr(T, f"Qfixed{tj[1]}_{tj[2]}")(vj["f"] / 2 ** tj[2])
    return tuple(lib_value(T, t, v) for t, v in zip(tj[1:], vj["t"]))


def ann_q(tj, qlist=False):
    """annotation text (homogeneous tuples of scalars as Qlist[...] when `qlist`)"""
    k = tj[0]
    if k == "bool":
        return "bool"
    if k == "qint":
        return f"Qint[{tj[1]}]"
    if k == "qchar":
        return "Qchar"
    if k == "qfixed":
        return f"Qfixed[{tj[1]},{tj[2]}]"
    els = tj[1:]
    if qlist and len(els) >= 2 and all(e == els[0] for e in els) and els[0][0] != "tuple":
        return f"Qlist[{ann_q(els[0])}, {len(els)}]"
    return "Tuple[" + ", ".join(ann_q(e, qlist) for e in els) + "]"


# --------------------------------------------------------------------------- purity / repeatability oracle


def snap(x):
    """structural snapshot of an argument object (type-exact: True and 1 differ), taken before and after a call"""
    if isinstance(x, list):
        return ["list"] + [snap(e) for e in x]
    if isinstance(x, tuple):
        return ["tuple"] + [snap(e) for e in x]
    if isinstance(x, dict):
        return ["dict"] + [[snap(k), snap(v)] for k, v in x.items()]  # insertion order is part of the object
    d = getattr(x, "__dict__", None)
    extra = "" if not d else " " + json.dumps(sorted((k, repr(v)) for k, v in d.items()))
    return f"{type(x).__name__}:{x!r}{extra}"


def call_twice(fn, objs, canon=lambda r: r):
    """fn() twice on the SAME argument objects -> ([result 1, result 2], [snapshot before, after 1, after 2])"""
    states = [[snap(o) for o in objs]]
    outs = []
    for _ in range(2):
        try:
            outs.append(canon(fn()))
        except Exception as e:  # noqa
            outs.append({"exception": f"{type(e).__name__}: {e}"})
        states.append([snap(o) for o in objs])
    return outs, states


def impure(outs, states):
    """None when the call left its arguments alone and repeated its result, else what went wrong"""
    if states[1] != states[0]:
        return "modifies the object passed in"
    if states[2] != states[0]:
        return "modifies the object passed in (second call)"
    if outs[0] != outs[1]:
        return "gives a different result when called again with the same object"
    return None


def own_format(x, out_len):
    """what format_outcome is documented (and pinned by the upstream tests) to return: the characters / binary
    digits / elements in order, zero-extended at the END up to out_len, never truncated"""
    if isinstance(x, str):
        bits = [c == "1" for c in x]
    elif isinstance(x, int):
        bits = [c == "1" for c in bin(x)[2:]]
    else:
        bits = [bool(b) for b in x]
    if out_len is not None and len(bits) < out_len:
        bits = bits + [False] * (out_len - len(bits))
    return bits


def to_lists(v):
    """the same argument value with every tuple written as a list (what a caller passes for a Qlist)"""
    return [to_lists(e) for e in v] if isinstance(v, tuple) else v


def has_error(j):
    if j == "error":
        return True
    if isinstance(j, dict):
        return any(has_error(v) for v in j.values())
    if isinstance(j, list):
        return any(has_error(v) for v in j)
    return False


# --------------------------------------------------------------------------- generator

QINT_W = [2, 3, 4, 5, 6, 8]
QFIXED = [(1, 2), (1, 3), (2, 2), (2, 3), (1, 4), (2, 4), (3, 3)]


def gen_scalar(rng, maxbits):
    for _ in range(20):
        k = rng.choice(["bool", "bool", "qint", "qint", "qint", "qfixed", "qchar"])
        if k == "bool":
            t = ["bool"]
        elif k == "qint":
            t = ["qint", rng.choice(QINT_W)]
        elif k == "qchar":
            t = ["qchar"]
        else:
            i_, f_ = rng.choice(QFIXED)
            t = ["qfixed", i_, f_]
        if ty_size(t) <= maxbits:
            return t
    return ["bool"]


def gen_ty(rng, depth, maxbits):
    if depth <= 0 or maxbits < 2 or rng.random() < 0.4:
        return gen_scalar(rng, maxbits)
    n = rng.randint(2, 3)
    els, left = [], maxbits
    if rng.random() < 0.25:  # homogeneous (Qlist-shaped)
        e = gen_scalar(rng, max(1, maxbits // n))
        return ["tuple"] + [e] * n
    for i in range(n):
        e = gen_ty(rng, depth - 1, max(1, left - (n - 1 - i)))
        els.append(e)
        left -= ty_size(e)
        if left < 1:
            break
    if len(els) < 2:
        els.append(["bool"])
    return ["tuple"] + els


def leaves_of(tj, expr):
    """[(python expression text, scalar type, is_name)] of the scalar components"""
    if tj[0] != "tuple":
        return [(expr, tj)]
    out = []
    for i, t in enumerate(tj[1:]):
        out += leaves_of(t, f"{expr}[{i}]")
    return out


ARGN = ["a", "b", "c"]


def mk_program(name, argtys, body, ret_ty, rexp, kind, qlist=False):
    sig = ", ".join(f"{n}: {ann_q(t, qlist)}" for n, t in zip(ARGN, argtys))
    src = f"def {name}({sig}) -> {ann_q(ret_ty, qlist)}:\n" + "".join(f"    {l}\n" for l in body)
    return dict(name=name, src=src, args=[[n, t] for n, t in zip(ARGN, argtys)], ret=ret_ty, rexp=rexp, kind=kind)


def leaf_rexp(expr, t):
    # a bare argument name is a Name node (binding.to_exp()); a subscript is any other expression
    return ["var", t] if "[" not in expr else ["scalar", t]


def gen_display(rng, leaves, depth):
    """random (nested) tuple display over the scalar leaves -> (text, type, rexp)"""
    n = rng.randint(2, 3)
    txt, tys, rx = [], [], []
    for _ in range(n):
        if depth > 0 and rng.random() < 0.35:
            t_, ty_, r_ = gen_display(rng, leaves, depth - 1)
        else:
            e, t = rng.choice(leaves)
            t_, ty_, r_ = e, t, leaf_rexp(e, t)
        txt.append(t_)
        tys.append(ty_)
        rx.append(r_)
    return "(" + ", ".join(txt) + ")", ["tuple"] + tys, ["tup"] + rx


def systematic_programs():
    """the same for every seed: every signature shape x every return form at the smallest size"""
    P = []
    B, Q2, Q3, C, F12 = ["bool"], ["qint", 2], ["qint", 3], ["qchar"], ["qfixed", 1, 2]
    TBB = ["tuple", B, B]
    TQB = ["tuple", Q2, B]
    TBQ = ["tuple", B, Q2]
    NEST = ["tuple", TBB, B]
    NEST2 = ["tuple", B, ["tuple", Q2, B]]
    L3 = ["tuple", Q2, Q2, Q2]
    LB = ["tuple", B, B, B]
    scal = [B, Q2, Q3, ["qint", 4], ["qint", 5], ["qint", 6], ["qint", 8], C, F12, ["qfixed", 2, 3], ["qfixed", 1, 4]]
    tups = [TBB, TQB, TBQ, NEST, NEST2, L3, LB, ["tuple", F12, B], ["tuple", C, B], ["tuple", ["tuple", Q2, Q2], ["tuple", B, B]]]
    k = 0

    def nm():
        nonlocal k
        k += 1
        return f"c05s_{k}"

    # identity of every shape (return of a variable)
    for t in scal + tups:
        P.append(mk_program(nm(), [t], ["return a"], t, ["var", t], "identity"))
    for t in [L3, LB]:
        P.append(mk_program(nm(), [t], ["return a"], t, ["var", t], "identity-qlist", qlist=True))
    # returns with more than ten bits / elements at one naming level (_ret.10 sorts before _ret.2 as text)
    Q12, LB12 = ["qint", 12], ["tuple"] + [B] * 12
    P.append(mk_program(nm(), [Q12], ["return a"], Q12, ["var", Q12], "identity-wide"))
    P.append(mk_program(nm(), [["qint", 16]], ["return a"], ["qint", 16], ["var", ["qint", 16]], "identity-wide"))
    P.append(mk_program(nm(), [LB12], ["return a"], LB12, ["var", LB12], "identity-wide", qlist=True))
    P.append(mk_program(nm(), [Q3], ["return a ^ 5"], Q12, ["scalar", Q12], "widen"))
    P.append(mk_program(nm(), [Q3], ["return a + 1"], Q12, ["scalar", Q12], "widen-wrap"))
    # rebuild of every tuple shape from its leaves (tuple display following the type)
    def rebuild(t, e):
        if t[0] != "tuple":
            return e, leaf_rexp(e, t)
        parts = [rebuild(x, f"{e}[{i}]") for i, x in enumerate(t[1:])]
        return "(" + ", ".join(p[0] for p in parts) + ")", ["tup"] + [p[1] for p in parts]
    for t in tups:
        txt, rx = rebuild(t, "a")
        P.append(mk_program(nm(), [t], [f"return {txt}"], t, rx, "rebuild"))
    # reversal / regrouping
    P.append(mk_program(nm(), [TQB], ["return (a[1], a[0])"], TBQ, ["tup", ["scalar", B], ["scalar", Q2]], "regroup"))
    P.append(mk_program(nm(), [NEST], ["return (a[1], (a[0][1], a[0][0]))"], ["tuple", B, TBB],
                        ["tup", ["scalar", B], ["tup", ["scalar", B], ["scalar", B]]], "regroup"))
    P.append(mk_program(nm(), [Q2, B], ["return (a, b)"], TQB, ["tup", ["var", Q2], ["var", B]], "pack"))
    P.append(mk_program(nm(), [Q2, B, Q3], ["return ((a, b), c)"], ["tuple", TQB, Q3],
                        ["tup", ["tup", ["var", Q2], ["var", B]], ["var", Q3]], "pack"))
    P.append(mk_program(nm(), [B, B, B], ["return (c, (b, a))"], ["tuple", B, TBB],
                        ["tup", ["var", B], ["tup", ["var", B], ["var", B]]], "pack"))
    P.append(mk_program(nm(), [B], ["return (a, a)"], TBB, ["tup", ["var", B], ["var", B]], "dup"))
    P.append(mk_program(nm(), [Q2], ["return (a, a)"], ["tuple", Q2, Q2], ["tup", ["var", Q2], ["var", Q2]], "dup"))
    # tuple-typed variables inside a display / local tuple variables
    P.append(mk_program(nm(), [TBB, B], ["return (a, b)"], ["tuple", TBB, B], ["tup", ["var", TBB], ["var", B]], "pack-tuplevar"))
    P.append(mk_program(nm(), [TQB, B], ["return (a, b)"], ["tuple", TQB, B], ["tup", ["var", TQB], ["var", B]], "pack-tuplevar"))
    P.append(mk_program(nm(), [B, B], ["d = (a, b)", "return d"], TBB, ["var", TBB], "localvar"))
    P.append(mk_program(nm(), [Q2, B], ["d = (a, b)", "return d"], TQB, ["var", TQB], "localvar"))
    P.append(mk_program(nm(), [Q2, B], ["d = (a, b)", "return (d, b)"], ["tuple", TQB, B], ["tup", ["var", TQB], ["var", B]], "localvar"))
    # scalar operators
    P.append(mk_program(nm(), [Q2, Q2], ["return a + b"], Q2, ["scalar", Q2], "op-add"))
    P.append(mk_program(nm(), [Q3, Q3], ["return a + b"], ["qint", 4], ["scalar", ["qint", 4]], "op-add"))
    P.append(mk_program(nm(), [Q2, Q2], ["return a == b"], B, ["scalar", B], "op-eq"))
    P.append(mk_program(nm(), [B, B], ["return a and not b"], B, ["scalar", B], "op-bool"))
    P.append(mk_program(nm(), [B, B], ["return (a ^ b, a or b)"], TBB, ["tup", ["scalar", B], ["scalar", B]], "op-bool"))
    P.append(mk_program(nm(), [B, Q2, Q2], ["return b if a else c"], Q2, ["scalar", Q2], "op-ite"))
    P.append(mk_program(nm(), [TQB, Q2], ["return (a[0] == b, a[1])"], TBB, ["tup", ["scalar", B], ["scalar", B]], "op-eq"))
    P.append(mk_program(nm(), [Q2], ["return 3"], ["qint", 4], ["scalar", ["qint", 4]], "const"))
    P.append(mk_program(nm(), [B], ["return (True, a, False)"], LB, ["tup", ["scalar", B], ["var", B], ["scalar", B]], "const"))
    P.append(mk_program(nm(), [C, B], ["return (b, a)"], ["tuple", B, C], ["tup", ["var", B], ["var", C]], "pack"))
    P.append(mk_program(nm(), [F12, ["qfixed", 2, 2]], ["return (b, a)"], ["tuple", ["qfixed", 2, 2], F12],
                        ["tup", ["var", ["qfixed", 2, 2]], ["var", F12]], "pack"))
    return P


# ---- compile-time configurations the property quantifies over: both shipped optimizer profiles x uncompute
CONFIGS = [("defaultOptimizer", True), ("defaultOptimizer", False), ("fastOptimizer", True), ("fastOptimizer", False)]
DEFAULT_CONFIG = CONFIGS[0]


def config_tag(config):
    return f"{config[0]}/uncompute={'on' if config[1] else 'off'}"


def qmap_programs():
    """the same for every seed: every statement form that changes the compiler's qubit map (the map sends a NAME to
    the qubit of its latest assignment), at the smallest size.  Each is checked under all of CONFIGS: the default
    profile merges every assignment into the return expressions, `fastOptimizer` hands the assignments to the compiler
    as they are, so that an argument name moves to a work qubit."""
    P = []
    B, Q2 = ["bool"], ["qint", 2]
    TBB, TBQ, TQQ, TQB = ["tuple", B, B], ["tuple", B, Q2], ["tuple", Q2, Q2], ["tuple", Q2, B]
    LB = ["tuple", B, B, B]

    def V(t):
        return ["var", t]

    def S(t):
        return ["scalar", t]

    def tup(*r):
        return ["tup"] + list(r)

    def add(kind, argtys, body, ret, rexp, qlist=False):
        P.append(mk_program(f"c05q_{len(P) + 1}", argtys, body, ret, rexp, "qmap:" + kind, qlist))

    # an argument re-bound once (returned / used in the return expression / not returned / the other one returned)
    add("rebind-once", [B, B], ["a = a and b", "return a ^ b"], B, S(B))
    add("rebind-once", [B, B], ["a = a and b", "return a"], B, V(B))
    add("rebind-once", [B, B], ["a = not a", "return a"], B, V(B))
    add("rebind-once", [Q2, Q2], ["a = a + b", "return a"], Q2, V(Q2))
    add("rebind-once", [Q2, Q2], ["b = a + b", "return (a, b)"], TQQ, tup(V(Q2), V(Q2)))
    add("rebind-once", [B, B, B], ["b = a ^ c", "return (b, a)"], TBB, tup(V(B), V(B)))
    add("rebind-unreturned", [B, B], ["a = a and b", "return b"], B, V(B))
    add("rebind-unreturned", [Q2, Q2], ["a = a + b", "return b"], Q2, V(Q2))
    # re-bound twice (one argument twice, two arguments once each)
    add("rebind-twice", [Q2, Q2], ["a = a + b", "a = a + b", "return a"], Q2, V(Q2))
    add("rebind-twice", [B, B], ["a = a ^ b", "a = a and b", "return a"], B, V(B))
    add("rebind-twice", [B, B], ["a = a ^ b", "b = a and b", "return (a, b)"], TBB, tup(V(B), V(B)))
    add("rebind-twice", [B, B, B], ["c = a or b", "a = c and b", "c = not a", "return (c, a)"], TBB, tup(V(B), V(B)))
    # re-bound inside if
    add("rebind-if", [Q2, B], ["if b:", "    a = a + 1", "return a"], Q2, V(Q2))
    add("rebind-if", [B, B], ["if b:", "    a = not a", "return a"], B, V(B))
    add("rebind-if", [B, B, B], ["if c:", "    a = b", "else:", "    b = a", "return (a, b)"], TBB, tup(V(B), V(B)))
    # re-bound inside for
    add("rebind-for", [TBB, B], ["for i in range(2):", "    b = b ^ a[i]", "return b"], B, V(B))
    add("rebind-for", [LB, B], ["for i in range(3):", "    b = b ^ a[i]", "return b"], B, V(B), qlist=True)
    add("rebind-for", [Q2, Q2], ["for i in range(2):", "    a = a + b", "return a"], Q2, V(Q2))
    # arguments copied to variables that are then returned
    add("copy", [Q2, B], ["c = a", "return c"], Q2, V(Q2))
    add("copy", [B, B], ["c = b", "return c"], B, V(B))
    add("copy", [TBB, B], ["c = a", "return c"], TBB, V(TBB))
    add("copy", [B, B], ["c = a", "d = c", "return (d, c)"], TBB, tup(V(B), V(B)))
    add("copy-rebind", [B, B], ["c = a", "a = a ^ b", "return (c, a)"], TBB, tup(V(B), V(B)))
    add("copy-rebind", [Q2, Q2], ["c = a", "a = a + b", "return (c, a)"], TQQ, tup(V(Q2), V(Q2)))
    # returned arguments, unused arguments
    add("return-arg", [Q2, B], ["return a"], Q2, V(Q2))
    add("return-arg", [Q2, B], ["return b"], B, V(B))
    add("return-arg", [B, Q2, B], ["return c"], B, V(B))
    add("return-arg", [B, B], ["return (b, a)"], TBB, tup(V(B), V(B)))
    add("unused-arg", [Q2, B, Q2], ["return c"], Q2, V(Q2))
    add("unused-arg", [Q2, B, Q2], ["return a"], Q2, V(Q2))
    add("unused-arg", [B, B, B], ["return b"], B, V(B))
    add("unused-arg", [B, Q2], ["return not a"], B, S(B))
    add("unused-arg", [B, Q2], ["return True"], B, S(B))
    # an argument used only in a later statement
    add("late-use", [B, B], ["c = not a", "d = c and b", "return d"], B, V(B))
    add("late-use", [Q2, Q2, B], ["d = a + 1", "e = d + b", "return (e, c)"], TQB, tup(V(Q2), V(B)))
    add("late-use", [B, B, B], ["d = a ^ b", "e = d and c", "a = e", "return (a, d)"], TBB, tup(V(B), V(B)))
    # augmented assignment on an argument
    add("augassign", [Q2, Q2], ["a += b", "return a"], Q2, V(Q2))
    add("augassign", [Q2, B], ["a += 1", "return a"], Q2, V(Q2))
    add("augassign", [B, B], ["a ^= b", "return a"], B, V(B))
    add("augassign", [B, B], ["b &= a", "return (a, b)"], TBB, tup(V(B), V(B)))
    # tuple arguments with one element re-bound
    add("tuple-elem", [TBB, B], ["a = (a[0] and b, a[1])", "return a"], TBB, V(TBB))
    add("tuple-elem", [TBQ, B], ["a = (a[0], a[1] + 1)", "return a"], TBQ, V(TBQ))
    add("tuple-elem", [TBB, B], ["a = (a[1], a[0])", "return a"], TBB, V(TBB))
    add("tuple-elem", [TBB, B], ["a = (a[0], b)", "return (a[1], a[0])"], TBB, tup(S(B), S(B)))
    # a name moved onto another argument's qubit / two names exchanged
    add("alias", [B, B], ["a = b", "return a"], B, V(B))
    add("alias", [B, B], ["a = b", "return (a, b)"], TBB, tup(V(B), V(B)))
    add("alias", [B, B], ["c = a", "a = b", "b = c", "return (a, b)"], TBB, tup(V(B), V(B)))
    add("alias", [Q2, Q2], ["c = a", "a = b", "b = c", "return (a, b)"], TQQ, tup(V(Q2), V(Q2)))
    return P


def random_qmap_program(rng, idx):
    """random variant of `qmap_programs`: 2-3 scalar arguments (bool or Qint[2]), 1-4 statements drawn from the
    re-binding / copying / augmented forms (plain, under an if, in a for), a return of names that are in scope"""
    B, Q2 = ["bool"], ["qint", 2]
    nargs = rng.choice([2, 2, 3])
    argtys = [rng.choice([B, B, Q2]) for _ in range(nargs)]
    names = ARGN[:nargs]
    scope = dict(zip(names, argtys))  # name -> type, arguments first (dict order)
    body = []
    fresh = iter(["d", "e", "g", "h"])

    def expr(t):
        """(text) of an expression of type t over the names in scope"""
        same = [n for n, tt in scope.items() if tt == t]
        if not same:
            return "True" if t == B else "1"
        x = rng.choice(same)
        y = rng.choice(same)
        if t == B:
            return rng.choice([f"{x} and {y}", f"{x} ^ {y}", f"not {x}", f"{x} or not {y}", x])
        return rng.choice([f"{x} + {y}", f"{x} + 1", x])

    for _ in range(rng.randint(1, 4)):
        tgt = rng.choice(names + names + [None])  # mostly an argument, sometimes a new variable
        if tgt is None:
            t = rng.choice([tt for tt in scope.values()])  # a type that has a name in scope
            tgt = next(fresh)
            body.append(f"{tgt} = {expr(t)}")
            scope[tgt] = t
            continue
        t = scope[tgt]
        form = rng.choice(["plain", "plain", "aug", "if", "for"])
        bools = [n for n, tt in scope.items() if tt == B]
        if form == "plain":
            body.append(f"{tgt} = {expr(t)}")
        elif form == "aug":
            same = [n for n, tt in scope.items() if tt == t]
            body.append(f"{tgt} {'^=' if t == B else '+='} {rng.choice(same)}")
        elif form == "if" and bools:
            body += [f"if {rng.choice(bools)}:", f"    {tgt} = {expr(t)}"]
        else:
            body += [f"for i in range({rng.randint(1, 3)}):", f"    {tgt} = {expr(t)}"]
    # return: one name, or a display of 2-3 names
    k = rng.choice([1, 2, 2, 3])
    picks = [rng.choice(list(scope)) for _ in range(k)]
    if k == 1:
        t = scope[picks[0]]
        return mk_program(f"c05qr_{idx}", argtys, body + [f"return {picks[0]}"], t, ["var", t], "qmap:random")
    ty = ["tuple"] + [scope[n] for n in picks]
    rx = ["tup"] + [["var", scope[n]] for n in picks]
    return mk_program(f"c05qr_{idx}", argtys, body + ["return (" + ", ".join(picks) + ")"], ty, rx, "qmap:random")


# ---- histories on ONE QlassF object: compile() again under other options, read before / in between / after
def history_programs():
    """the same for every seed: programs with an intermediate variable whose LAYOUT (number of qubits and / or the
    qubits of the return bits) differs between uncompute on and off under at least one optimizer profile (measured in
    every run: `layout_differs`), at 2-3 bits so that all argument values are enumerated"""
    P = []
    B, Q2, Q3 = ["bool"], ["qint", 2], ["qint", 3]

    def add(family, argtys, body, ret, rexp):
        P.append(mk_program(f"c05h_{len(P) + 1}", argtys, body, ret, rexp, "history:" + family))

    S = lambda t: ["scalar", t]  # noqa: E731
    add("mac", [Q3, Q3], ["c = a + b", "return c * b"], Q3, S(Q3))                     # the seeded demo at 3 bits
    add("mac", [Q2, Q2], ["c = a - b", "return c * b"], Q2, S(Q2))
    add("add-add", [Q3, Q3], ["c = a + b", "return c + a"], Q3, S(Q3))
    add("const", [Q3, Q3], ["c = b + 3", "return c * 3"], Q3, S(Q3))
    add("square", [Q3, Q3], ["c = a - b", "return c * c"], Q3, S(Q3))                   # return qubits permuted
    # the intermediate variable used twice: the layout differs under BOTH profiles
    add("chain3", [Q3, Q3], ["c = a + b", "d = c * b", "return d + c"], Q3, S(Q3))
    add("chain3", [Q3, Q3], ["c = a + b", "d = c + a", "return d * c"], Q3, S(Q3))
    add("chain3", [Q3, Q3], ["c = a - b", "d = c - b", "return d - c"], Q3, S(Q3))
    add("chain3", [Q3, Q3], ["c = a - b", "d = c * a", "return d + c"], Q3, S(Q3))
    add("chain3", [Q2, Q2], ["c = a * b", "d = c + b", "return d + a"], Q2, S(Q2))
    add("tuple", [Q3, Q3], ["c = a + b", "d = c < b", "return (d, c + a)"], ["tuple", B, Q3],
        ["tup", ["var", B], S(Q3)])                                                     # both profiles; a + b wraps (C01)
    add("tuple", [Q2, Q2], ["c = a ^ b", "d = c < b", "return (d, c + a)"], ["tuple", B, Q2], ["tup", ["var", B], S(Q2)])
    add("bool-ret", [Q3, Q3], ["c = a + b", "return c > b"], B, S(B))                   # both profiles; a + b wraps (C01)
    add("ite", [Q3, Q3, B], ["d = a + b", "return d * b if c else d"], Q3, S(Q3))
    add("same-layout", [Q2, Q2], ["return a + b"], Q2, S(Q2))                           # control: nothing moves
    add("same-layout", [B, B, B], ["d = a and b", "return d ^ c"], B, S(B))
    return P


def random_history_program(rng, idx):
    """random variant of `history_programs`: two Qint[w] arguments (w in {2, 3}), an intermediate variable, a return
    expression that uses it (the templates measured to move the return qubits between uncompute on and off)"""
    w = rng.choice([2, 3, 3])
    Q = ["qint", w]
    s1 = rng.choice(["a + b", "a - b", "a + 1", "b + 3", "a ^ b"] + (["a * b"] if w == 2 else []))
    s2 = rng.choice(["c * b", "c + a", "c - b", "c * a", "c * 3", "(c + 1) * b", "c * c", "c + b"])
    if rng.random() < 0.3:
        s3 = rng.choice(["d + c", "d + a", "d * b", "d - c", "d * c"])
        body = [f"c = {s1}", f"d = {s2}", f"return {s3}"]
    else:
        body = [f"c = {s1}", f"return {s2}"]
    return mk_program(f"c05hr_{idx}", [Q, Q], body, Q, ["scalar", Q], "history:random")


# a history = steps on named objects; ("new", obj, uncompute | None [, other profile]) creates it from the source
# (None: to_compile=False), ("compile", obj, uncompute) calls obj.compile("internal", uncompute=...) on the SAME object,
# ("read", obj) reads every observable again.  After every step EVERY live compiled object is judged.
HISTORIES = {
    "on>off>on": [("new", "A", True), ("compile", "A", False), ("compile", "A", True)],
    "off>on>off": [("new", "A", False), ("compile", "A", True), ("compile", "A", False)],
    "uncompiled>on>on>off>off": [("new", "A", None), ("compile", "A", True), ("read", "A"), ("compile", "A", True),
                                 ("compile", "A", False), ("read", "A"), ("compile", "A", False)],
    "two-objects": [("new", "A", True), ("new", "B", False), ("compile", "A", False), ("compile", "B", True)],
    "two-profiles": [("new", "A", True), ("new", "B", True, "other"), ("compile", "A", False), ("read", "B")],
}
OTHER_PROFILE = {"defaultOptimizer": "fastOptimizer", "fastOptimizer": "defaultOptimizer"}


def random_history(rng):
    """1-2 objects, 3-6 steps drawn from {compile(on), compile(off), read}; the first object starts compiled with a
    random flag or uncompiled, the second one (if any) appears at a random step"""
    steps = [("new", "A", rng.choice([True, False, None]))]
    objs = ["A"]
    for _ in range(rng.randint(3, 6)):
        r = rng.random()
        if r < 0.15 and len(objs) == 1:
            objs.append("B")
            steps.append(("new", "B", rng.choice([True, False])))
        elif r < 0.3:
            steps.append(("read", rng.choice(objs)))
        else:
            steps.append(("compile", rng.choice(objs), rng.choice([True, False])))
    return steps


def step_text(st):
    if st[0] == "new":
        how = "to_compile=False" if st[2] is None else f"uncompute={st[2]}"
        return f"{st[1]} = qlassf(src, {how}{', other profile' if len(st) > 3 else ''})"
    if st[0] == "compile":
        return f"{st[1]}.compile('internal', uncompute={st[2]})"
    return f"read {st[1]}"


def random_program(rng, idx, maxbits):
    nargs = rng.choice([1, 1, 2, 2, 3])
    argtys, left = [], maxbits
    for i in range(nargs):
        t = gen_ty(rng, 2, max(1, min(left - (nargs - 1 - i), maxbits - 1 if nargs > 1 else maxbits)))
        argtys.append(t)
        left -= ty_size(t)
        if left < 1:
            break
    names = ARGN[:len(argtys)]
    leaves = []
    for n, t in zip(names, argtys):
        leaves += leaves_of(t, n)
    name = f"c05r_{idx}"
    qlist = rng.random() < 0.3
    r = rng.random()
    if r < 0.2:
        i = rng.randrange(len(argtys))
        t = argtys[i]
        return mk_program(name, argtys, [f"return {names[i]}"], t, ["var", t], "identity", qlist)
    if r < 0.6:
        txt, ty, rx = gen_display(rng, leaves, 2)
        return mk_program(name, argtys, [f"return {txt}"], ty, rx, "display", qlist)
    if r < 0.72:
        # whole arguments packed into a display
        ks = [rng.randrange(len(argtys)) for _ in range(rng.randint(2, 3))]
        ty = ["tuple"] + [argtys[k] for k in ks]
        rx = ["tup"] + [["var", argtys[k]] for k in ks]
        return mk_program(name, argtys, ["return (" + ", ".join(names[k] for k in ks) + ")"], ty, rx, "pack-args", qlist)
    if r < 0.82:
        txt, ty, rx = gen_display(rng, leaves, 1)
        if rng.random() < 0.5:
            return mk_program(name, argtys, [f"d = {txt}", "return d"], ty, ["var", ty], "localvar", qlist)
        e, t = rng.choice(leaves)
        return mk_program(name, argtys, [f"d = {txt}", f"return (d, {e})"], ["tuple", ty, t],
                          ["tup", ["var", ty], leaf_rexp(e, t)], "localvar", qlist)
    # scalar operators over the leaves
    qints = [(e, t) for e, t in leaves if t[0] == "qint"]
    bools = [(e, t) for e, t in leaves if t[0] == "bool"]
    if qints and rng.random() < 0.5:
        e1, t1 = rng.choice(qints)
        same = [(e, t) for e, t in qints if t == t1]
        e2, _ = rng.choice(same)
        form = rng.choice(["add", "eq", "pair"])
        if form == "add":
            return mk_program(name, argtys, [f"return {e1} + {e2}"], t1, ["scalar", t1], "op-add", qlist)
        if form == "eq":
            return mk_program(name, argtys, [f"return {e1} == {e2}"], ["bool"], ["scalar", ["bool"]], "op-eq", qlist)
        return mk_program(name, argtys, [f"return ({e1} == {e2}, {e1})"], ["tuple", ["bool"], t1],
                          ["tup", ["scalar", ["bool"]], leaf_rexp(e1, t1)], "op-eq", qlist)
    if bools:
        e1, _ = rng.choice(bools)
        e2, _ = rng.choice(bools)
        e3, t3 = rng.choice(leaves)
        form = rng.choice(["and", "xor", "ite"])
        if form == "and":
            return mk_program(name, argtys, [f"return ({e1} and not {e2}, {e3})"], ["tuple", ["bool"], t3],
                              ["tup", ["scalar", ["bool"]], leaf_rexp(e3, t3)], "op-bool", qlist)
        if form == "xor":
            return mk_program(name, argtys, [f"return {e1} ^ {e2}"], ["bool"], ["scalar", ["bool"]], "op-bool", qlist)
        same = [(e, t) for e, t in leaves if t == t3]
        e4, _ = rng.choice(same)
        return mk_program(name, argtys, [f"return {e3} if {e1} else {e4}"], t3, ["scalar", t3], "op-ite", qlist)
    txt, ty, rx = gen_display(rng, leaves, 1)
    return mk_program(name, argtys, [f"return {txt}"], ty, rx, "display", qlist)


# --------------------------------------------------------------------------- one program


def oracle_fn(prog):
    code = compile(prog["src"], "<c05-oracle>", "exec", flags=__future__.annotations.compiler_flag)
    env = {}
    exec(code, env)
    return env[prog["name"]]


def eval_expressions(qf, assignment):
    """values of all symbols defined by qf.expressions under the input assignment (name -> bool)"""
    from sympy import Symbol
    from sympy.logic.boolalg import BooleanFalse, BooleanTrue

    known = dict(assignment)
    for sym, exp in qf.expressions:
        v = exp.subs({Symbol(k): val for k, val in known.items()})
        if isinstance(v, BooleanTrue) or v is True:
            known[sym.name] = True
        elif isinstance(v, BooleanFalse) or v is False:
            known[sym.name] = False
        else:
            return None
    return known


def arg_values(prog, idx):
    """argument values (canonical JSON) whose flat encoding is the number idx"""
    vals, off = [], 0
    for _, t in prog["args"]:
        n = ty_size(t)
        bits = [bool((idx >> (off + i)) & 1) for i in range(n)]
        vals.append(own_unflat(t, bits))
        off += n
    return vals


class Checker:
    def __init__(self, ctx: Ctx, res: Result):
        self.ctx = ctx
        self.res = res
        self.T = importlib.import_module("qlasskit.types")
        self.qlassf = importlib.import_module("qlasskit").qlassf
        self.boolopt = importlib.import_module("qlasskit.boolopt")
        self.active = {f["quirk"]: f["id"] for f in ctx.findings if f.get("_active") and f.get("quirk")}
        self.quirks = sorted(self.active)
        self.reqs = []  # (request, callback(reply))
        self._fresh = {}
        self.stats = dict(programs=0, rejected=0, skipped_c01=0, skipped_c02=0, nonclassical=0,
                          shared_qubit_pairs=0, no_output_qubits=0, roundtrips=0,
                          e2e_instances=0, e2e_in_class=0, e2e_covered=0, e2e_no_form=0, e2e_cache_hit=0,
                          e2e_roundtrips_covered=0, e2e_by_kind={}, by_config={}, rebound_arg_bits=0,
                          programs_rebinding_an_argument=0, input_qubits_mismatch=0)

    def ask(self, req, cb):
        self.reqs.append((req, cb))

    def flush(self):
        if not self.reqs:
            return
        replies = self.ctx.model([r for r, _ in self.reqs])
        if replies is not None:
            for (req, cb), rep in zip(self.reqs, replies):
                if "driver_error" in rep:
                    self.res.disagree(dict(request=req), "model driver error", model=rep)
                else:
                    cb(rep)
        self.reqs = []

    # ------------------------------------------------------------------
    def check_program(self, prog, max_exh_bits, n_samples, rng, config=DEFAULT_CONFIG, codec=True, given=None, hist=None):
        """`config` = (optimizer profile name, uncompute): how the function is translated and compiled.  `codec=False`
        leaves out the checks that do not depend on the compilation (decode_output of own encodings, purity of
        format_outcome / interpret_as_qtype, list-valued arguments): used when the same program is compiled again
        under another configuration.  `given` = (QlassF, ChoiceLog of its LATEST compile()): the state of an object
        with a history (`check_history`) is judged instead of a fresh one; `hist` = the history so far (part of the
        case)."""
        res, T = self.res, self.T
        pcase = dict(src=prog["src"], profile=config[0], uncompute=config[1])
        if hist:
            pcase.update(hist)
        self.stats["programs"] += 1
        cstat = self.stats["by_config"].setdefault(config_tag(config), dict(programs=0, rejected=0, roundtrips=0,
                                                                              rebinding_programs=0, e2e_covered=0))
        cstat["programs"] += 1
        try:
            if given is not None:
                qf, chlog = given
            else:
                with e2e.ChoiceLog() as chlog:  # ancilla choices of the real compilation (for the end-to-end coverage)
                    qf = self.qlassf(prog["src"], to_compile=True, bool_optimizer=getattr(self.boolopt, config[0]),
                                     uncompute=config[1])
        except Exception as e:  # front end / compiler rejects: not this property's business
            self.stats["rejected"] += 1
            cstat["rejected"] += 1
            res.count(dict(pcase, rejected=True), nontrivial=False, bucket="rejected:" + prog["kind"])
            res.notes.append(f"rejected {prog['name']} ({prog['kind']}, {config_tag(config)}): {type(e).__name__}: {str(e)[:80]}") if len(res.notes) < 12 else None
            return
        argtys = [t for _, t in prog["args"]]
        ret = prog["ret"]
        n = sum(ty_size(t) for t in argtys)
        m = ty_size(ret)
        qmap = dict(qf.circuit().qubit_map)
        nq = qf.num_qubits
        # ---- names and qubit lists (oracle: own naming function)
        exp_arg_names = [own_names(t, nme) for nme, t in prog["args"]]
        exp_ret_names = own_names(ret, "_ret")
        try:
            in_q = list(qf.input_qubits)
        except Exception as e:  # noqa
            in_q = f"{type(e).__name__}: {e}"
        try:
            in_size = qf.input_size
        except Exception as e:  # noqa
            in_size = f"{type(e).__name__}: {e}"
        code_sig = dict(arg_bitvecs=[list(a.bitvec) for a in qf.args], ret_bitvec=list(qf.returns.bitvec),
                        input_qubits=in_q, input_size=in_size)
        if code_sig["arg_bitvecs"] != exp_arg_names or code_sig["ret_bitvec"] != exp_ret_names:
            res.violation(pcase, "bit names are not in argument / return bit order", code=code_sig,
                          expected=dict(arg_bitvecs=exp_arg_names, ret_bitvec=exp_ret_names))
        flat_in_names = [x for l in exp_arg_names for x in l]
        # names the definition list binds again (an assignment to an argument that the optimizer profile did not merge
        # away): the compiler moves such a NAME to the qubit of its latest assignment; the argument BIT stays where
        # encode_input puts it, on qubit k
        bound = {s_.name for s_, _ in qf.expressions}
        rebound = [x for x in flat_in_names if x in bound]
        arg_q = [qmap.get(x) for x in flat_in_names]
        if rebound:
            self.stats["programs_rebinding_an_argument"] += 1
            self.stats["rebound_arg_bits"] += len(rebound)
            cstat["rebinding_programs"] += 1
        if not isinstance(in_q, list) or in_q != list(range(n)) or any(q >= nq for q in in_q):
            self.stats["input_qubits_mismatch"] += 1
            res.violation(pcase, "input_qubits is not [0..n) in range", code=in_q, expected=list(range(n)))
        elif [q for x, q in zip(flat_in_names, arg_q) if x not in bound] != [k_ for k_, x in enumerate(flat_in_names) if x not in bound]:
            res.violation(pcase, "the k-th argument bit (its name is never bound again) is not mapped to input qubit k",
                          code=arg_q, expected=list(range(n)))
        if in_size != n:
            res.violation(pcase, "input_size is not the number of argument bits", code=in_size, expected=n)
        if not isinstance(in_q, list) or len(in_q) != n or any((not isinstance(q, int)) or q < 0 or q >= nq for q in in_q):
            in_q = None  # nothing can be loaded through it: no round trip (already reported above)

        def cb_sig(rep, code_sig=code_sig):
            for k in ("arg_bitvecs", "ret_bitvec", "input_qubits"):
                if rep.get(k) != code_sig[k]:
                    res.disagree(pcase, f"model and code differ on {k}", code=code_sig[k], model=rep.get(k))
                    break
            else:
                if len(rep.get("input_qubits", [])) != code_sig["input_size"]:
                    res.disagree(pcase, "model and code differ on input_size", code=code_sig["input_size"],
                                 model=len(rep.get("input_qubits", [])))
        self.ask(dict(op="c05.sig", args=prog["args"], ret=ret), cb_sig)
        # ---- output qubits
        ret_syms = [s.name for s, _ in qf.expressions if s.name.startswith("_ret")]
        alt_oq = None
        try:
            oq = list(qf.output_qubits)
            oq_exc = None
        except Exception as e:  # noqa
            oq, oq_exc = None, f"{type(e).__name__}: {e}"
        state = {}

        def cb_ret(rep):
            state["ret"] = rep
            if rep.get("names") != ret_syms:
                res.disagree(pcase, "model and code differ on the symbols defined by the Return", code=ret_syms, model=rep.get("names"))
        self.ask(dict(op="c05.ret", rexp=prog["rexp"], quirks=self.quirks), cb_ret)
        steps = [[s.name, qmap[s.name]] for s, _ in qf.expressions if s.name in qmap]

        def cb_outq(rep):
            state["outq"] = rep
            if rep.get("oq") != oq:
                res.disagree(pcase, "model and code differ on output_qubits", code=oq if oq is not None else oq_exc, model=rep.get("oq"))
            for k, v in rep.get("qmap", []):
                if qmap.get(k) != v:
                    res.disagree(pcase, "model and code differ on the qubit map", code={k: qmap.get(k)}, model={k: v})
                    break
        self.ask(dict(op="c05.outq", inputs=flat_in_names, steps=steps, nq=nq, bitvec=exp_ret_names), cb_outq)
        if oq is None:
            self.stats["no_output_qubits"] += 1
            res.count(dict(pcase, output_qubits="raises"), bucket="output_qubits-raises")
            fid = self.active.get("retFlatNames")

            def cb_attr(_rep, fid=fid):
                # known only if: finding active, trigger (Return names differ from returns.bitvec), and the
                # quirk-model reproduces exactly the symbols the code defined and predicts the KeyError
                r, o = state.get("ret"), state.get("outq")
                if (fid and r is not None and o is not None and r.get("agree") is False
                        and r.get("names") == ret_syms and o.get("oq") is None
                        and oq_exc.startswith("KeyError")):
                    res.known(fid)
                else:
                    res.violation(pcase, "output_qubits raised " + oq_exc, code=dict(ret_symbols=ret_syms, qubit_map=qmap),
                                  expected=dict(ret_bitvec=exp_ret_names))
            self.ask(dict(op="c05.ret", rexp=prog["rexp"], quirks=self.quirks), cb_attr)
        else:
            exp_oq = [qmap.get(x) for x in exp_ret_names]
            if oq != exp_oq or len(oq) != m or any((not isinstance(q, int)) or q < 0 or q >= nq for q in oq):
                res.violation(pcase, "output_qubits are not the in-range qubits of the return bits in return bit order",
                              code=oq, expected=exp_oq)
                if (len(oq) == m and all(isinstance(q, int) and 0 <= q < nq for q in oq)
                        and all(isinstance(q, int) and 0 <= q < nq for q in exp_oq)):
                    alt_oq = exp_oq  # usable: the round trip is still run through the REPORTED qubits (witness value)
                else:
                    oq = None
        # ---- values
        qf_before = self.qf_state(qf)
        gates = circ.qc_to_json(qf.circuit())
        classical = all(circ.is_classical(g) or g["c"] in ("Barrier", "NopGate") for g in gates)
        # the reported number of qubits is that of the circuit() the object hands out, and covers every wire of it
        wires = 1 + max([q for g in gates for q in g.get("w", [])] + [q for q in qmap.values() if isinstance(q, int)] + [-1])
        if nq != qf.circuit().num_qubits or nq < wires:
            res.violation(pcase, "num_qubits is not the number of qubits of the circuit the object returns (or a gate / "
                                 "mapped name lies outside it)", code=nq, expected=dict(circuit_num_qubits=qf.circuit().num_qubits, wires_used=wires))
            nq = max(nq, wires)
        if not classical:
            self.stats["nonclassical"] += 1
        # ---- is this compiled function covered end to end by the Lean theorem C05_end_to_end_general?
        rt_count = self.check_e2e(qf, prog, pcase, chlog, gates, nq, oq, config, arg_q, rebound, cstat)
        fn = oracle_fn(prog)
        if n <= max_exh_bits:
            idxs, exhaustive = range(2 ** n), True
        else:
            idxs = sorted(set([0, 2 ** n - 1] + [rng.randrange(2 ** n) for _ in range(n_samples)]))
            exhaustive = False
        outs_by_bit = [[] for _ in range(m)]
        all_flats = []
        readings = {}
        dec_seen = set()
        has_tuple_arg = any(t[0] == "tuple" for t in argtys)
        n_listvals = 0
        for idx in idxs:
            vals = arg_values(prog, idx)
            case = dict(pcase, values=vals)
            res.count(case, nontrivial=(idx != 0 and (len(argtys) > 1 or argtys[0][0] == "tuple" or ret[0] == "tuple")),
                      bucket=prog["kind"])
            flat = [b for t, v in zip(argtys, vals) for b in own_flat(t, v)]
            all_flats.append(flat)
            exp_s = bstr(flat)[::-1]
            # the SAME value objects are encoded twice: they must come back untouched and give the same string
            libvals = [lib_value(T, t, v) for t, v in zip(argtys, vals)]
            outs, states = call_twice(lambda: qf.encode_input(*libvals), libvals)
            s = outs[0]
            if isinstance(s, dict):
                res.violation(case, f"encode_input raised {s['exception']}")
                continue
            bad = impure(outs, states)
            if bad:
                res.violation(case, "encode_input " + bad, code=dict(results=outs, values_after=states[1:]),
                              expected=dict(result=exp_s, values=states[0]))
                continue
            if codec and has_tuple_arg and n_listvals < 8:
                # tuple / Qlist arguments given as (mutable) lists: same string, lists untouched
                n_listvals += 1
                lvals = [to_lists(x) for x in libvals]
                louts, lstates = call_twice(lambda: qf.encode_input(*lvals), lvals)
                lbad = impure(louts, lstates)
                lcase = dict(case, values_as="lists")
                res.count(lcase, bucket="purity:encode_input-lists")
                if lbad or louts[0] != exp_s:
                    res.violation(lcase, "encode_input of list-valued tuple arguments " + (lbad or "differs from the tuple-valued call"),
                                  code=dict(results=louts, values_after=lstates[1:]), expected=dict(result=exp_s, values=lstates[0]))
            if s != exp_s:
                res.violation(case, "encode_input: character j is not the bit of input qubit n-1-j "
                                    "(arguments in order, tuples depth-first, little-endian elements)", code=s, expected=exp_s)
                continue

            def cb_enc(rep, s=s, case=case):
                if rep.get("s") != s:
                    res.disagree(case, "model and code differ on encode_input", code=s, model=rep.get("s"))
            if codec:
                self.ask(dict(op="c05.encode", args=prog["args"], vals=vals), cb_enc)
            # expected value by running the Python source on plain values
            try:
                expected = canon_result(ret, fn(*[plain_value(t, v) for t, v in zip(argtys, vals)]))
            except Exception as e:  # noqa
                raise RuntimeError(f"oracle failed on {prog['src']!r}: {e}")
            exp_bits = own_flat(ret, expected)
            for k_, b_ in enumerate(exp_bits):
                outs_by_bit[k_].append(b_)
            # ---- pure codec: decode the own encoding of f(v), three reading forms
            rd = bstr(exp_bits)[::-1]
            if codec and rd not in dec_seen:
                dec_seen.add(rd)
                self.check_decode(qf, prog, case, rd, expected, rng if prog.get("random") else None)
            # ---- the round trip through the real circuit
            if oq is None or not classical or in_q is None:
                continue
            # the string is loaded on the qubits the function REPORTS as its input qubits (never on assumed positions)
            st = [False] * nq
            for i in range(n):
                st[in_q[i]] = s[len(s) - 1 - i] == "1"
            st = circ.run_classical(gates, st)
            reading = "".join("1" if st[q] else "0" for q in reversed(oq))
            readings[reading] = readings.get(reading, 0) + 1 + (idx % 3)
            self.stats["roundtrips"] += 1
            cstat["roundtrips"] += 1
            rt_count[0] += 1
            try:
                got = code_val_to_json(ret, qf.decode_output(reading))
            except Exception as e:  # noqa
                got = {"exception": f"{type(e).__name__}: {e}"}
            if got != expected:
                # codec-side checks all passed for this case: is it the expressions (C01) or the circuit (C02)?
                known = eval_expressions(qf, dict(zip(flat_in_names, flat)))
                expr_bits = None if known is None else [known.get(x) for x in exp_ret_names]
                circ_bits = [st[q] for q in oq]
                # what the compiler owes (C02) is stated for the state with the k-th argument bit ON QUBIT k: only a
                # failure that is also there with the bits loaded by position is the compiler's or the front end's
                st_pos = circ.run_classical(gates, list(flat) + [False] * (nq - n))
                pos_bits = [st_pos[q] for q in oq]
                if alt_oq is not None and [st[q] for q in alt_oq] == exp_bits:
                    if not state.get("alt_reported"):
                        state["alt_reported"] = True
                        res.violation(case, "round trip: the reading of the REPORTED output_qubits does not decode to f(v); the "
                                            "qubits the current circuit's qubit_map gives the return bit names hold f(v)",
                                      code=dict(encode_input=s, reading=reading, decoded=got, output_qubits=oq),
                                      expected=dict(value=expected, output_qubits=alt_oq))
                elif circ_bits != pos_bits:
                    res.violation(case, "round trip: loading encode_input(v) on the reported input_qubits does not give f(v), "
                                        "loading the k-th argument bit on qubit k gives other output bits",
                                  code=dict(encode_input=s, input_qubits=in_q, reading=reading, decoded=got, output_qubits=oq,
                                            output_bits_by_position=pos_bits), expected=expected)
                elif expr_bits is not None and circ_bits != expr_bits:
                    self.stats["skipped_c02"] += 1
                    self.stats.setdefault("skipped_c02_programs", {})
                    self.stats["skipped_c02_programs"][prog["src"]] = self.stats["skipped_c02_programs"].get(prog["src"], 0) + 1
                elif expr_bits is not None and expr_bits != exp_bits:
                    self.stats["skipped_c01"] += 1
                    self.stats.setdefault("skipped_c01_programs", {})
                    self.stats["skipped_c01_programs"][prog["src"]] = self.stats["skipped_c01_programs"].get(prog["src"], 0) + 1
                else:
                    res.violation(case, "round trip: decode_output(reading of output_qubits) differs from f(v)",
                                  code=dict(encode_input=s, reading=reading, decoded=got, output_qubits=oq), expected=expected)
        # ---- sharing
        if oq is not None:
            for i, j in itertools.combinations(range(len(oq)), 2):
                if oq[i] == oq[j]:
                    self.stats["shared_qubit_pairs"] += 1
                    differ = outs_by_bit[i] != outs_by_bit[j]
                    if differ:
                        # the values two return bits *carry* are those of the function's bit-level expressions;
                        # the Python oracle may differ from them where fixed-width arithmetic wraps (C01's business)
                        try:
                            vi, vj = [], []
                            for fl in all_flats:
                                kn = eval_expressions(qf, dict(zip(flat_in_names, fl)))
                                vi.append(kn.get(exp_ret_names[i]))
                                vj.append(kn.get(exp_ret_names[j]))
                            if vi == vj:
                                differ = False
                                self.stats["skipped_c01"] += 1
                        except Exception:  # noqa
                            pass
                    if differ:
                        res.violation(pcase, f"return bits {i} and {j} share qubit {oq[i]} but differ on some input",
                                      code=dict(output_qubits=oq))
        # ---- decode_counts on the observed readings (plus readings with an extra high character)
        if readings and codec:
            self.check_counts(qf, prog, pcase, readings, m)
        # ---- the codec calls above are queries: the function object they were made on is as it was
        qf_after = self.qf_state(qf)
        if qf_after != qf_before:
            diff = {k: dict(before=qf_before[k], after=qf_after[k]) for k in qf_before if qf_before[k] != qf_after[k]}
            res.violation(pcase, "encode_input / decode_output / decode_counts changed the QlassF they were called on", code=diff)
        return exhaustive

    # ------------------------------------------------------------------ histories on one object
    OBS = ("input_qubits", "output_qubits", "input_size", "output_size", "num_qubits", "num_gates", "qubits")

    @classmethod
    def observe(cls, qf):
        """everything the object reports about its circuit, each read through the public API"""
        o = {}
        for k in cls.OBS:
            try:
                v = getattr(qf, k)
                o[k] = list(v) if isinstance(v, (list, tuple, range)) else v
            except Exception as e:  # noqa
                o[k] = f"{type(e).__name__}: {e}"
        try:
            c = qf.circuit()
            o["circuit.num_qubits"] = c.num_qubits
            o["circuit.gates"] = canon_gates(circ.qc_to_json(c))
            o["circuit.qubit_map"] = sorted(c.qubit_map.items())
        except Exception as e:  # noqa
            o["circuit"] = f"{type(e).__name__}: {e}"
        return o

    def fresh_obs(self, prog, profile, unc):
        """what a FRESH object translated under `profile` and compiled once with `unc` reports (cached per program)"""
        key = (prog["src"], profile, unc)
        if key not in self._fresh:
            qf = self.qlassf(prog["src"], to_compile=True, bool_optimizer=getattr(self.boolopt, profile), uncompute=unc)
            self._fresh[key] = self.observe(qf)
        return self._fresh[key]

    def layout_differs(self, prog, profile):
        a, b = self.fresh_obs(prog, profile, True), self.fresh_obs(prog, profile, False)
        return dict(num_qubits=a["num_qubits"] != b["num_qubits"], output_qubits=a["output_qubits"] != b["output_qubits"],
                    gates=a["circuit.gates"] != b["circuit.gates"])

    def check_history(self, prog, profile, hname, steps, max_exh_bits, n_samples, rng):
        """run `steps` on QlassF objects made from prog['src'] under `profile`; after every step every compiled live
        object is judged: (1) every observable read twice gives the same answer, and is consistent with the circuit the
        object holds NOW (num_qubits, qubits, num_gates, sizes); (2) it equals what a fresh object compiled with the
        object's current options reports (gate list and qubit map included); (3) `check_program` on the object itself:
        own-name oracle for output_qubits against the current qubit map, ALL argument values round-tripped through the
        REPORTED input_qubits / output_qubits against the Python source, the compiler model run with the current
        uncompute flag on the choices logged from the LATEST compile() against the circuit and the reported qubits."""
        res = self.res
        hs = self.stats.setdefault("histories", dict(histories=0, steps=0, states_judged=0, recompiles=0,
                                                     recompiles_changing_flag=0, recompiles_moving_output_qubits=0,
                                                     recompiles_changing_num_qubits=0, by_history={}))
        hs["histories"] += 1
        hs["by_history"][hname] = hs["by_history"].get(hname, 0) + 1
        n = sum(ty_size(t) for _, t in prog["args"])
        objs = {}  # name -> dict(qf, profile, unc, chlog)
        done = []
        for k, stp in enumerate(steps):
            done.append(step_text(stp))
            hist = dict(history=hname, step=k, steps=list(done))
            hcase = dict(src=prog["src"], profile=profile, **hist)
            hs["steps"] += 1
            if stp[0] == "new":
                prof = OTHER_PROFILE[profile] if len(stp) > 3 else profile
                try:
                    with e2e.ChoiceLog() as chlog:
                        qf = self.qlassf(prog["src"], to_compile=stp[2] is not None, bool_optimizer=getattr(self.boolopt, prof),
                                         uncompute=bool(stp[2]))
                except Exception as e:  # noqa
                    self.stats["rejected"] += 1
                    res.notes.append(f"rejected {prog['name']} ({prog['kind']}, {prof}): {type(e).__name__}: {str(e)[:80]}") if len(res.notes) < 12 else None
                    return
                objs[stp[1]] = dict(qf=qf, profile=prof, unc=stp[2], chlog=chlog)
                if stp[2] is None:
                    # not compiled yet: the signature side is there already
                    try:
                        iq, isz = list(qf.input_qubits), qf.input_size
                    except Exception as e:  # noqa
                        iq, isz = f"{type(e).__name__}: {e}", None
                    if iq != list(range(n)) or isz != n:
                        res.violation(hcase, "input_qubits / input_size of a function that is not compiled yet are not [0..n) / n",
                                      code=dict(input_qubits=iq, input_size=isz), expected=list(range(n)))
            elif stp[0] == "compile":
                o = objs[stp[1]]
                before = self.observe(o["qf"]) if o["unc"] is not None else None
                try:
                    with e2e.ChoiceLog() as chlog:
                        o["qf"].compile("internal", uncompute=stp[2])
                except Exception as e:  # noqa
                    res.violation(hcase, f"compile() on an existing object raised {type(e).__name__}: {e}")
                    return
                hs["recompiles"] += before is not None
                if before is not None and o["unc"] != stp[2]:
                    hs["recompiles_changing_flag"] += 1
                    fr = self.fresh_obs(prog, o["profile"], stp[2])
                    hs["recompiles_moving_output_qubits"] += before["output_qubits"] != fr["output_qubits"]
                    hs["recompiles_changing_num_qubits"] += before["num_qubits"] != fr["num_qubits"]
                o["unc"], o["chlog"] = stp[2], chlog
            # ---- judge every compiled live object ("read" steps judge too: that is the second reading)
            for oname, o in objs.items():
                if o["unc"] is None:
                    continue
                qf = o["qf"]
                ocase = dict(src=prog["src"], profile=o["profile"], uncompute=o["unc"], object=oname, **hist)
                hs["states_judged"] += 1
                res.count(ocase, bucket="history-state:" + hname)
                ob1, ob2 = self.observe(qf), self.observe(qf)
                for key in ob1:
                    if ob1[key] != ob2.get(key):
                        res.violation(ocase, f"{key} read twice without compiling in between gives two answers",
                                      code=dict(first=ob1[key], second=ob2.get(key)))
                # consistent with the circuit the object holds now (own counts)
                own = {"num_qubits": ob1.get("circuit.num_qubits"), "qubits": list(range(ob1.get("circuit.num_qubits") or 0)),
                       "num_gates": len(ob1.get("circuit.gates") or []), "input_size": n, "input_qubits": list(range(n)),
                       "output_size": ty_size(prog["ret"])}
                for key, v in own.items():
                    if ob1.get(key) != v:
                        res.violation(ocase, f"{key} is not that of the circuit the object holds after this history",
                                      code=ob1.get(key), expected=v)
                fr = self.fresh_obs(prog, o["profile"], o["unc"])
                for key in fr:
                    if ob1.get(key) != fr[key]:
                        res.violation(ocase, f"{key} differs from what a fresh object compiled with the same options reports",
                                      code=ob1.get(key), expected=fr[key])
                        break
                self.check_program(prog, max_exh_bits, n_samples, rng, config=(o["profile"], o["unc"]), codec=False,
                                   given=(qf, o["chlog"]), hist=dict(object=oname, **hist))
                ob3 = self.observe(qf)
                if ob3 != ob1:
                    diff = {key: dict(before=ob1[key], after=ob3.get(key)) for key in ob1 if ob1[key] != ob3.get(key)}
                    res.violation(ocase, "reading the observables and running the round trip changed what the object reports", code=diff)

    def check_e2e(self, qf, prog, pcase, chlog, gates, nq, oq, config=DEFAULT_CONFIG, arg_q=None, rebound=(), cstat=None):
        """`C05_end_to_end_general` speaks of the gate list the *compiler model* emits for a definition list of the
        decidable class `inGeneralClass` over the bit names of the signature.  covered = the definition list the real
        compiler got (`qf.expressions`) is in the class AND the model, run on the ancilla choices logged from the real
        compilation (with the uncompute flag of `config`), reproduces the circuit of this function: same gate list
        (canonical form), same number of qubits, same `output_qubits`, and the final qubit map leaves every argument
        bit NAME where the real `qubit_map` leaves it (a re-bound name moves; `input_qubits` of the model stays
        [0..n)).  In the class but not reproduced = a disagreement.  Returns the cell in which the caller counts the
        round trips evaluated on this circuit."""
        res, st = self.res, self.stats
        st["e2e_instances"] += 1
        rt = [0]
        by = st["e2e_by_kind"].setdefault(prog["kind"], [0, 0])
        by[1] += 1
        try:
            ej = exprs_to_json(qf.expressions)
        except Unsupported:
            st["e2e_no_form"] += 1
            return rt
        choices = chlog.choices_of(qf._qcircuit)

        def cb(rep):
            if not rep.get("in_general"):
                return
            st["e2e_in_class"] += 1
            if "error" not in rep and "gates" in rep:
                mg, cg = canon_gates(rep["gates"]), canon_gates(gates)
                n_in = len(rep.get("inputs", []))
                if arg_q is not None and rep.get("arg_qubits") != arg_q:
                    res.disagree(pcase, "model and code differ on the qubits the final qubit map gives the argument bit names",
                                 code=arg_q, model=rep.get("arg_qubits"))
                if rep.get("inputs_fresh") and (rep.get("arg_qubits") != list(range(n_in)) or rebound):
                    # C05_end_to_end_inputs: no definition binds an argument bit again => the j-th name is on qubit j
                    res.disagree(pcase, "inputsFresh holds in the model but an argument bit name is not on its input qubit",
                                 code=dict(arg_qubits=arg_q, rebound=list(rebound)), model=rep.get("arg_qubits"))
                if rep.get("input_qubits") != list(range(n_in)):
                    res.disagree(pcase, "the model's input_qubits is not [0..n) (input_qubits_range)", model=rep.get("input_qubits"))
                if mg == cg and rep.get("num_qubits") == nq and rep.get("oq") == oq and not rep.get("choices_left"):
                    st["e2e_covered"] += 1
                    if cstat is not None:
                        cstat["e2e_covered"] += 1
                    st["e2e_roundtrips_covered"] += rt[0]
                    by[0] += 1
                    if rep.get("cache_hit"):
                        st["e2e_cache_hit"] += 1
                    return
                detail = dict(model=dict(gates=mg, num_qubits=rep.get("num_qubits"), oq=rep.get("oq"),
                                         choices_left=rep.get("choices_left")),
                              code=dict(gates=cg, num_qubits=nq, oq=oq))
            else:
                detail = dict(model=rep.get("error", "no gate list"), code=dict(num_qubits=nq, oq=oq, choices=choices))
            res.disagree(pcase, "definition list is in the class inGeneralClass but the compiler model run on the logged "
                         "ancilla choices does not reproduce the circuit of this function", **detail)
        self.ask(dict(op="c05.e2e", args=prog["args"], ret=prog["ret"], exprs=ej, uncompute=bool(config[1]), choices=choices), cb)
        return rt

    @staticmethod
    def qf_state(qf):
        c = qf.circuit()
        try:
            oq = list(qf.output_qubits)
        except Exception as e:  # noqa
            oq = f"{type(e).__name__}: {e}"
        return dict(name=qf.name, arg_bitvecs=[list(a.bitvec) for a in qf.args], ret_bitvec=list(qf.returns.bitvec),
                    arg_types=[repr(a.ttype) for a in qf.args], ret_type=repr(qf.returns.ttype),
                    input_qubits=list(qf.input_qubits), output_qubits=oq, qubit_map=list(c.qubit_map.items()),
                    num_qubits=c.num_qubits, gates=len(c.gates), expressions=len(qf.expressions))

    def check_decode(self, qf, prog, case, rd, expected, rng=None):
        res, ret = self.res, prog["ret"]
        m = len(rd)
        forms = [("str", rd), ("list", [c == "1" for c in rd]), ("int", int(rd, 2))]
        for form, x in forms:
            # the SAME reading object is decoded twice (display, then check): untouched, same value both times
            outs, states = call_twice(lambda: qf.decode_output(x), [x], lambda r: code_val_to_json(ret, r))
            got = outs[0]
            dcase = dict(ret=ret, form=form, reading=rd)
            bad = impure(outs, states)
            if bad:
                res.violation(dict(dcase, src=prog["src"]), f"decode_output({form} reading) " + bad,
                              code=dict(first=outs[0], second=outs[1], reading_after=[st[0] for st in states[1:]]),
                              expected=dict(value=expected, reading=states[0][0]))
            req = dict(op="c05.decode", ret=ret, form=("int" if form == "int" else "str"), quirks=self.quirks)
            if form == "int":
                req["n"] = x
            else:
                req["bits"] = rd

            def cb(rep, got=got, dcase=dcase, form=form, x=x):
                if rep.get("value") != got:
                    res.disagree(dict(dcase, src=prog["src"]), "model and code differ on decode_output", code=got, model=rep.get("value"))
                if got != expected:
                    fid = self.active.get("formatOutcomeIntPadRight")
                    # known only if: int reading with fewer binary digits than return bits (the trigger)
                    # and the quirk-model gives exactly the code's wrong value
                    if fid and form == "int" and len(bin(x)) - 2 < m and rep.get("value") == got:
                        res.known(fid)
                    else:
                        res.violation(dict(dcase, src=prog["src"]), f"decode_output({form} reading of the encoding of a value) does not return the value",
                                      code=got, expected=expected)
            self.ask(req, cb)
        # readings shorter / longer than the return width: no oracle (the property reads exactly the output
        # qubits), correspondence with the model only (right padding; extra high characters ignored)
        self._nshort = getattr(self, "_nshort", {})
        self._nshort[prog["name"]] = self._nshort.get(prog["name"], 0) + 1
        for x in sorted({rd.lstrip("0") or "0", rd[1:] or "0", "1" + rd, "01" + rd}) if self._nshort[prog["name"]] <= 6 else []:
            try:
                got = code_val_to_json(ret, qf.decode_output(x))
            except Exception as e:  # noqa
                got = "error"

            def cb2(rep, got=got, x=x):
                if rep.get("value") != got:
                    res.disagree(dict(src=prog["src"], ret=ret, reading=x), "model and code differ on decode_output of a short/long reading",
                                 code=got, model=rep.get("value"))
            self.ask(dict(op="c05.decode", ret=ret, form="str", bits=x, quirks=self.quirks), cb2)
        if self._nshort[prog["name"]] <= 4:
            self.check_pure(qf, prog, rd, expected, None)
        if rng is not None and self._nshort[prog["name"]] <= 2:
            self.check_pure(qf, prog, rd, expected, rng)

    def check_pure(self, qf, prog, rd, expected, rng):
        """format_outcome / interpret_as_qtype called directly, twice on the same reading object: str, int and
        List[bool] readings of the exact, a shorter and a longer length, without out_len, with the return width
        and with a larger one.  Oracle: the reading object is as before (own snapshot), both results are equal,
        format_outcome == own_format, interpret_as_qtype(exact reading) == the value.  `rng`: extra random variants."""
        res, ret, T = self.res, prog["ret"], self.T
        m = len(rd)
        ttype = qf.returns.ttype
        if rng is None:
            combos = [(rd, None), (rd, m), (rd, m + 2), ("1" + rd, None), ("1" + rd, m)]
            if m > 1:
                combos += [(rd[1:], None), (rd[1:], m), (rd[: m // 2], m + 1)]
        else:
            combos = []
            for _ in range(3):
                k = rng.randint(1, m + 2)
                r = "".join(rng.choice("01") for _ in range(k))
                combos.append((r, rng.choice([None, m, k, rng.randint(1, m + 3)])))
        fid = self.active.get("formatOutcomePadsInPlace")
        for r, out_len in combos:
            for form in ("str", "list", "int"):
                def mk(r=r, form=form):
                    return r if form == "str" else ([c == "1" for c in r] if form == "list" else int(r, 2))
                nbits = len(bin(int(r, 2))) - 2 if form == "int" else len(r)
                pcase = dict(src=prog["src"], ret=ret, form=form, reading=r, out_len=out_len)
                res.count(pcase, bucket="purity:" + form)
                x1, x2 = mk(), mk()
                fouts, fstates = call_twice(lambda: T.format_outcome(x1, out_len), [x1], lambda l: bstr(l) if isinstance(l, list) else repr(l))
                iouts, istates = call_twice(lambda: T.interpret_as_qtype(x2, ttype, out_len), [x2], lambda v: code_val_to_json(ret, v))
                exp_fmt = bstr(own_format(mk(), out_len))
                exact = nbits == m and out_len in (None, m)
                # value of an exact-width reading by the own decoder (first character = last return bit)
                exp_val = own_unflat(ret, own_format(mk(), None)[::-1]) if exact else None
                trigger = form == "list" and out_len is not None and len(r) < out_len

                def cb(rep, pcase=pcase, fouts=fouts, fstates=fstates, iouts=iouts, istates=istates, exp_fmt=exp_fmt,
                       exact=exact, exp_val=exp_val, trigger=trigger, form=form):
                    mval = "error" if has_error(rep.get("value")) else rep.get("value")
                    ival = ["error" if isinstance(o, dict) and "exception" in o else o for o in iouts]
                    if rep.get("fmt") != fouts[0]:
                        res.disagree(pcase, "model and code differ on format_outcome", code=fouts[0], model=rep.get("fmt"))
                    # a Qfixed decoded from MORE bits than its type has is a float with extra fractional bits: outside
                    # the model's value domain (scaled integers), canonicalised as {"?": ...} - not compared
                    if mval != ival[0] and '"?"' not in json.dumps(ival[0]):
                        res.disagree(pcase, "model and code differ on interpret_as_qtype", code=iouts[0], model=rep.get("value"))
                    after = None if form != "list" else ["list"] + [f"bool:{c == '1'}" for c in rep.get("arg_after", "")]
                    for api, outs, states in (("format_outcome", fouts, fstates), ("interpret_as_qtype", iouts, istates)):
                        bad = impure(outs, states)
                        if bad is None:
                            if form == "list" and after != states[0][0]:
                                res.disagree(pcase, f"model and code differ on the reading object after {api}", code=states[1][0], model=after)
                            continue
                        # known only if: the finding is active, a List[bool] reading shorter than out_len (the trigger), the
                        # quirk-model predicts exactly the list the caller is left with, and nothing else is wrong
                        if (fid and trigger and states[1] == states[2] == [after] and outs[0] == outs[1]
                                and (api != "format_outcome" or outs[0] == exp_fmt)):
                            res.known(fid)
                        else:
                            res.violation(pcase, f"{api}({form} reading, out_len={pcase['out_len']}) " + bad,
                                          code=dict(first=outs[0], second=outs[1], reading_after=[st[0] for st in states[1:]]),
                                          expected=dict(reading=states[0][0]))
                    if fouts[0] != exp_fmt:
                        res.violation(pcase, "format_outcome does not return the reading zero-extended at the end to out_len",
                                      code=fouts[0], expected=exp_fmt)
                    if exact and iouts[0] != exp_val:
                        res.violation(pcase, "interpret_as_qtype(reading of the encoding of a value) does not return the value",
                                      code=iouts[0], expected=exp_val)
                req = dict(op="c05.pure", ret=ret, form=("int" if form == "int" else "str"), quirks=self.quirks)
                if form == "int":
                    req["n"] = int(r, 2)
                else:
                    req["bits"] = r
                if out_len is not None:
                    req["out_len"] = out_len
                self.ask(req, cb)

    def check_counts(self, qf, prog, pcase, readings, m):
        res, ret = self.res, prog["ret"]
        counts = dict(readings)
        first = next(iter(readings))
        counts["0" + first] = 2  # an extra, higher, qubit in the reading is ignored: merges with `first`
        counts["1" + first] = 1
        thr = sorted(counts.values())[len(counts) // 2]
        for discard in (None, 0, thr):
            exp = {}
            for r, c in counts.items():
                key = json.dumps(own_unflat(ret, [ch == "1" for ch in r[::-1]][:m]), sort_keys=True)
                exp[key] = exp.get(key, 0) + c
            if discard:
                exp = {k: v for k, v in exp.items() if v >= discard}
            arg = dict(counts)  # the SAME dict object is decoded twice: untouched (keys, order, numbers), same result
            outs, states = call_twice(
                (lambda: qf.decode_counts(arg, discard)) if discard is not None else (lambda: qf.decode_counts(arg)),
                [arg], lambda out: [[code_val_to_json(ret, k), v] for k, v in out.items()])
            got = outs[0]
            if isinstance(got, dict):
                res.violation(dict(pcase, counts=counts), f"decode_counts raised {got['exception']}")
                return
            bad = impure(outs, states)
            if bad:
                res.violation(dict(pcase, counts=counts, discard_lower=discard), "decode_counts " + bad,
                              code=dict(first=outs[0], second=outs[1], counts_after=[st[0] for st in states[1:]]),
                              expected=dict(counts=states[0][0]))
                return
            gotd = {json.dumps(k, sort_keys=True): v for k, v in got}
            ccase = dict(pcase, counts=counts, discard_lower=discard)
            if gotd != exp or len(gotd) != len(got) or (not discard and sum(v for _, v in got) != sum(counts.values())):
                res.violation(ccase, "decode_counts does not merge the shots by decoded value", code=got, expected=exp)
            req = dict(op="c05.counts", ret=ret, counts=[[r, c] for r, c in counts.items()])
            if discard is not None:
                req["discard"] = discard

            def cb(rep, got=got, ccase=ccase):
                if rep.get("out") != got:
                    res.disagree(ccase, "model and code differ on decode_counts", code=got, model=rep.get("out"))
            self.ask(req, cb)


WITNESS_SRC = {
    "retFlatNames": "def c05w_ret(a: Tuple[Tuple[bool, bool], bool]) -> Tuple[Tuple[bool, bool], bool]:\n    return a\n",
    "formatOutcomeIntPadRight": "def c05w_int(a: Qint[4]) -> Qint[4]:\n    return a\n",
}


def witness_fails(ctx: Ctx, f):
    qlassf = importlib.import_module("qlasskit").qlassf
    q = f.get("quirk")
    w = f.get("witness", {})
    if q == "retFlatNames":
        qf = qlassf(w.get("src", WITNESS_SRC[q]), to_compile=True)
        try:
            oq = qf.output_qubits
            return not (len(oq) == len(qf.returns.bitvec))
        except KeyError:
            return True
    if q == "formatOutcomeIntPadRight":
        qf = qlassf(w.get("src", WITNESS_SRC[q]), to_compile=True)
        return int(qf.decode_output(w.get("reading_int", 1))) != w.get("expected", 1)
    if q == "formatOutcomePadsInPlace":
        T = importlib.import_module("qlasskit.types")
        reading = [bool(b) for b in w.get("reading", [True])]
        kept = list(reading)
        T.format_outcome(reading, w.get("out_len", 4))
        return reading != kept
    return None


def run(ctx: Ctx) -> Result:
    res = Result("C05")
    rng = ctx.rng
    ck = Checker(ctx, res)
    res.rule = (
        "case = (program source, optimizer profile, uncompute flag, argument values): systematic slice (every scalar "
        "type and tuple shape as identity / rebuild / regroup / pack / local-variable / operator program, and every "
        "statement form that changes the qubit map: argument re-bound once / twice / in if / in for, copied, returned, "
        "unused, used late, augmented assignment, tuple element re-bound, aliased / swapped) under EVERY configuration "
        "{defaultOptimizer, fastOptimizer} x {uncompute on, off} with ALL argument values, then random signatures (1-3 "
        "args, nested tuples, Qlist) x return forms (every third under a random configuration) with all values when "
        "<= 2^10 else sampled, then random re-binding programs under every configuration; HISTORIES on one object (16 "
        "programs whose layout differs between uncompute on and off x 2 profiles x 5 histories of compile() again / read / "
        "second object, every state with all argument values; then random histories); non-trivial = non-zero input "
        "and a multi-argument or tuple-typed signature; plus per program (reading, str/list/int form, out_len) cases of "
        "format_outcome / interpret_as_qtype called twice on one object"
    )
    max_exh = 10
    n_samples = 400 if ctx.thorough else 120
    n_random = 1200 if ctx.thorough else 120
    maxbits = 14 if ctx.thorough else 10
    n_qrandom = 300 if ctx.thorough else 30
    n_hrandom = 120 if ctx.thorough else 12
    all_exh = True
    progs = systematic_programs()
    for p in progs:
        e = ck.check_program(p, max_exh, n_samples, rng)
        all_exh = all_exh and bool(e)
    ck.flush()
    # systematic, same for every seed: every compile-time configuration x (the programs above + every statement form
    # that changes the qubit map); the compilation-independent codec checks are made once per program
    for p in qmap_programs():
        for config in CONFIGS:
            ck.check_program(p, max_exh, n_samples, rng, config=config, codec=(config == DEFAULT_CONFIG))
    ck.flush()
    for p in progs:
        for config in CONFIGS[1:]:
            ck.check_program(p, max_exh, n_samples, rng, config=config, codec=False)
    ck.flush()
    # systematic, same for every seed: histories on ONE object (compile() again under the other uncompute flag, the same
    # flag, reads in between, a second object from the same source) on programs whose layout differs between the flags,
    # each under both optimizer profiles (the profile is fixed at translation: compile() cannot change it)
    hprogs = history_programs()
    layout = {}
    for p in hprogs:
        for profile in ("defaultOptimizer", "fastOptimizer"):
            layout[(p["name"], profile)] = ck.layout_differs(p, profile)
            for hname, steps in HISTORIES.items():
                ck.check_history(p, profile, hname, steps, max_exh, n_samples, rng)
        ck.flush()
    moving = sorted({nm for (nm, _), d in layout.items() if d["output_qubits"] or d["num_qubits"]})
    if len(moving) < 10 and not ck.stats["rejected"]:
        raise RuntimeError(f"history slice collapse: only {len(moving)} programs whose layout differs between uncompute on and off")
    for i in range(n_random):
        prng = random.Random(f"C05-{ctx.seed}-{i}")  # every program replays alone
        p = random_program(prng, i, maxbits if i % 4 else min(maxbits, 8))
        p["random"] = True
        # the program stream is as before; every third program is compiled under a configuration drawn afterwards
        config = CONFIGS[prng.randrange(len(CONFIGS))] if i % 3 == 2 else DEFAULT_CONFIG
        ck.check_program(p, max_exh, n_samples, prng, config=config)
        if len(ck.reqs) > 20000:
            ck.flush()
    ck.flush()
    # random variants of the qubit-map programs, each under every configuration
    for i in range(n_qrandom):
        for config in CONFIGS:
            prng = random.Random(f"C05-q-{ctx.seed}-{i}")
            p = random_qmap_program(prng, i)
            p["random"] = True
            ck.check_program(p, max_exh, n_samples, prng, config=config, codec=(config == DEFAULT_CONFIG))
        if len(ck.reqs) > 20000:
            ck.flush()
    ck.flush()
    # random variants of the histories (drawn last): random program of the family, random profile, random steps
    for i in range(n_hrandom):
        prng = random.Random(f"C05-h-{ctx.seed}-{i}")
        p = random_history_program(prng, i) if i % 3 else hprogs[prng.randrange(len(hprogs))]
        profile = prng.choice(["defaultOptimizer", "fastOptimizer", "fastOptimizer"])
        ck.check_history(p, profile, f"random-{i}", random_history(prng), max_exh, n_samples, prng)
    ck.flush()
    hs = ck.stats.get("histories", {})
    res.extra["histories"] = dict(
        systematic=dict(programs=len(hprogs), profiles=2, histories={k: [step_text(x) for x in v] for k, v in HISTORIES.items()},
                        programs_whose_layout_differs_on_vs_off=len(moving),
                        layout_differs={f"{nm}/{pr}": [k for k, v in d.items() if v] for (nm, pr), d in layout.items()}),
        random=dict(histories=n_hrandom, shape="program: 2 of 3 from the template family c = <op>; [d = <op>;] return <op> on "
                                               "Qint[2|3] x Qint[2|3], 1 of 3 a systematic history program; profile default:fast "
                                               "1:2; first object compiled on / off / not compiled, 3-6 steps of compile(on) / "
                                               "compile(off) (70%), read (15%), a second object (15%)"),
        counts=hs)
    res.notes.append(
        f"histories on one QlassF object: {len(hprogs)} systematic programs ({len(moving)} whose number of qubits or output "
        f"qubits differ between uncompute on and off under at least one profile) x 2 profiles x {len(HISTORIES)} histories "
        f"({', '.join(HISTORIES)}) + {n_hrandom} random histories: {hs.get('histories', 0)} histories, {hs.get('steps', 0)} steps, "
        f"{hs.get('recompiles', 0)} compile() calls on an already compiled object ({hs.get('recompiles_changing_flag', 0)} "
        f"changing the flag, {hs.get('recompiles_moving_output_qubits', 0)} of them moving the output qubits, "
        f"{hs.get('recompiles_changing_num_qubits', 0)} changing the number of qubits), {hs.get('states_judged', 0)} object "
        "states judged: every observable read twice, == the circuit held now, == a fresh object compiled with the same "
        "options, all argument values round-tripped through the reported qubits, compiler model on the choices of the "
        "latest compile()")
    res.extra["c05"] = ck.stats
    qk = {}
    for p in qmap_programs():
        qk[p["kind"]] = qk.get(p["kind"], 0) + 1
    res.extra["configurations"] = dict(
        configs=[config_tag(c) for c in CONFIGS],
        systematic=dict(shape_programs=len(progs), qubit_map_programs=len(qmap_programs()), qubit_map_programs_by_form=qk,
                        each_under="all 4 configurations, all argument values"),
        random=dict(signature_programs=n_random, signature_programs_config="default; every third: uniform over the 4",
                    rebinding_programs=n_qrandom, rebinding_programs_config="each under all 4",
                    rebinding_program_shape="2-3 arguments in {bool, Qint[2]}, 1-4 statements in {plain, augmented, under if, "
                                            "in for} assigning mostly to an argument, return of 1-3 names in scope"),
        by_config=ck.stats["by_config"],
        programs_rebinding_an_argument=ck.stats["programs_rebinding_an_argument"],
        rebound_argument_bits=ck.stats["rebound_arg_bits"])
    bc = ck.stats["by_config"]
    res.notes.append(
        "compile-time configurations: " + "; ".join(
            f"{k}: {v['programs']} compiled functions ({v['rebinding_programs']} whose definition list binds an argument bit "
            f"name again), {v['roundtrips']} round trips, {v['e2e_covered']} covered end to end" for k, v in bc.items())
        + f". Systematic (same for every seed): {len(progs)} shape programs + {len(qmap_programs())} qubit-map programs, each "
          f"under all 4 configurations with all argument values; random: {n_random} signature programs (every third under a "
          f"configuration drawn uniformly) + {n_qrandom} re-binding programs x 4 configurations. On every compiled function: "
          "input_qubits == range(n), input_size == n, both also against the Lean model (input_qubits_range), the final "
          "qubit map's entry of every argument bit name against the compiler model's; every round trip loads the string on "
          "the REPORTED input_qubits and reads the REPORTED output_qubits; a mismatch is attributed to the compiler / front "
          "end only if it is also there with the k-th argument bit loaded on qubit k")
    res.exhaustive = False
    res.notes.append("systematic slice: all argument values of every program enumerated; random programs: all values "
                     "when <= 10 input bits, else boundaries + random sample")
    res.notes.append(f"round-trip mismatches attributed to the front end (C01): {ck.stats['skipped_c01']}, "
                     f"to the compiler (C02): {ck.stats['skipped_c02']} - counted and skipped, not reported here")
    res.assumptions.append("C05: what the circuit computes (C02) and what the expressions mean (C01) are hypotheses of "
                           "C05_statement; the harness measures them on every case and skips cases they fail; "
                           "C05_end_to_end_general discharges the first for the compiler model on inGeneralClass")
    st = ck.stats
    res.extra["end_to_end"] = dict(covered=st["e2e_covered"], instances=st["e2e_instances"], in_class=st["e2e_in_class"],
                                   no_form=st["e2e_no_form"], cache_hit=st["e2e_cache_hit"],
                                   roundtrips_covered=st["e2e_roundtrips_covered"], roundtrips=st["roundtrips"],
                                   by_kind=st["e2e_by_kind"])
    res.notes.append(
        f"{st['e2e_covered']} of {st['e2e_instances']} compiled functions evaluated ({st['e2e_roundtrips_covered']} of "
        f"{st['roundtrips']} round trips through a real circuit) are covered end to end by the Lean theorem "
        "C05_end_to_end_general: the definition list handed to the compiler lies in the decidable class inGeneralClass over the "
        "bit names of the signature AND the compiler model, run on the ancilla choices logged from the real compilation "
        "(uncompute on), emits exactly the circuit of this function (gate list in canonical form, number of qubits, "
        f"output_qubits; a difference would be a disagreement); {st['e2e_in_class']} in the class, {st['e2e_cache_hit']} of the "
        f"covered with a cache hit in the model run, {st['e2e_no_form']} with an expression outside the modelled forms; per "
        "program kind covered/evaluated: " + ", ".join(f"{k}: {c}/{n}" for k, (c, n) in sorted(st["e2e_by_kind"].items()))
        + "; for the other functions the circuit-side hypothesis (Computes) is measured per case, as before")
    res.notes.append("every encode_input / decode_output / decode_counts call of the run is made twice on the same argument "
                     "objects (snapshot before == after, result repeated); format_outcome / interpret_as_qtype directly on "
                     "the first 4 distinct readings of every program x 8 (reading length, out_len) combinations x 3 forms, "
                     "plus 3 random (reading, out_len) draws x 3 forms on the first 2 readings of every random program")
    res.assumptions.append("C05: bit names are modelled structurally (base, index path); printing base.i.j is assumed "
                           "injective (Python identifiers contain no '.')")
    if ck.stats["programs"] and ck.stats["rejected"] > ck.stats["programs"] // 2:
        raise RuntimeError("generator collapse: most generated programs are rejected by the front end")
    return res


def replay(ctx: Ctx, payload):
    first = payload.get("first") or {}
    case = first.get("case", {})
    src = case.get("src")
    print("replaying", json.dumps(case)[:2000])
    if not src:
        return 2
    # find the program text again among the deterministic systematic programs, else rebuild a minimal record
    for f in ctx.findings:
        f["_active"] = bool(witness_fails(ctx, f)) if f.get("status", "open") == "open" else False
    res = Result("C05")
    ck = Checker(ctx, res)
    prog = None
    tier = payload.get("tier", "quick")
    prng = random.Random(0)
    if case.get("history"):
        # a state of an object with a history: run that history again (same program, same profile of object A)
        hname = case["history"]
        prof = case.get("profile", DEFAULT_CONFIG[0])
        if case.get("object") == "B" and any("other profile" in t for t in case.get("steps", [])):
            prof = OTHER_PROFILE[prof]
        steps = HISTORIES.get(hname)
        for p in history_programs():
            if p["src"] == src:
                prog = p
        if steps is None:
            i = int(hname.split("-")[1])
            prng = random.Random(f"C05-h-{payload.get('seed', 0)}-{i}")
            hp = history_programs()
            p = random_history_program(prng, i) if i % 3 else hp[prng.randrange(len(hp))]
            prng.choice(["defaultOptimizer", "fastOptimizer", "fastOptimizer"])
            steps = random_history(prng)
            prog = p if p["src"] == src else None
        if prog is None:
            print("history program not found in the generator stream")
            return 2
        print("history:", hname, "under", prof, [step_text(x) for x in steps])
        ck.check_history(prog, prof, hname, steps, 10, 120, prng)
        ck.flush()
        for v in res.violations[:3]:
            print(json.dumps(v, indent=1, default=str)[:3000])
        for d in res.disagreements[:3]:
            print("DISAGREE", json.dumps(d, indent=1, default=str)[:2000])
        return 1 if (res.violations or res.disagreements) else 0
    for p in systematic_programs() + qmap_programs():
        if p["src"] == src:
            prog = p
    if prog is None:
        maxbits = 14 if tier == "thorough" else 10
        for i in range(1200 if tier == "thorough" else 120):
            prng = random.Random(f"C05-{payload.get('seed', 0)}-{i}")
            p = random_program(prng, i, maxbits if i % 4 else min(maxbits, 8))
            p["random"] = True
            if p["src"] == src:
                prog = p
                break
    if prog is None:
        for i in range(300 if tier == "thorough" else 30):
            prng = random.Random(f"C05-q-{payload.get('seed', 0)}-{i}")
            p = random_qmap_program(prng, i)
            p["random"] = True
            if p["src"] == src:
                prog = p
                break
    if prog is None:
        print("program not found in the generator stream")
        return 2
    # the configuration the failing function was compiled under is part of the case
    config = (case.get("profile", DEFAULT_CONFIG[0]), bool(case.get("uncompute", DEFAULT_CONFIG[1])))
    print("configuration:", config_tag(config))
    ck.check_program(prog, 10, 400 if tier == "thorough" else 120, prng, config=config)
    ck.flush()
    for v in res.violations[:3]:
        print(json.dumps(v, indent=1, default=str)[:3000])
    for d in res.disagreements[:3]:
        print("DISAGREE", json.dumps(d, indent=1, default=str)[:2000])
    return 1 if (res.violations or res.disagreements) else 0
