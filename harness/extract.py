"""Source-derived tables: parse the current /repo sources with `ast` (no import) and write
lean/QV/Gen/Tables.lean.  Theorems in QV/Props are stated over these definitions, so a change
of a table entry in the code changes the Lean term and the theorem is re-checked."""
from __future__ import annotations

import ast
import os


def _parse(repo, rel):
    with open(os.path.join(repo, rel)) as f:
        return ast.parse(f.read(), rel)


def _class_consts(tree):
    """class name -> {attr: int constant} and bases"""
    out = {}
    for node in tree.body:
        if isinstance(node, ast.ClassDef):
            d = {}
            for st in node.body:
                if isinstance(st, ast.Assign) and len(st.targets) == 1 and isinstance(st.targets[0], ast.Name):
                    if isinstance(st.value, ast.Constant) and isinstance(st.value.value, int):
                        d[st.targets[0].id] = st.value.value
            bases = [b.id for b in node.bases if isinstance(b, ast.Name)]
            out[node.name] = (bases, d)
    return out


def _list_assign(tree, name):
    for node in tree.body:
        if isinstance(node, ast.Assign) and len(node.targets) == 1 and isinstance(node.targets[0], ast.Name):
            if node.targets[0].id == name:
                return node.value
    raise KeyError(name)


def _names(node):
    if not isinstance(node, (ast.List, ast.Tuple)):
        raise ValueError("expected a list literal")
    out = []
    for e in node.elts:
        if isinstance(e, ast.Name):
            out.append(e.id)
        elif isinstance(e, ast.Attribute):
            out.append(e.attr)
        else:
            raise ValueError("expected names in list literal")
    return out


def _resolve(classes, cname, attr):
    seen = set()
    while cname in classes and cname not in seen:
        seen.add(cname)
        bases, d = classes[cname]
        if attr in d:
            return d[attr]
        cname = bases[0] if bases else None
    raise KeyError(f"{cname}.{attr}")


def _find_func(tree, name):
    for node in ast.walk(tree):
        if isinstance(node, (ast.FunctionDef,)) and node.name == name:
            return node
    raise KeyError(name)


def lean_str(s):
    return '"' + s.replace("\\", "\\\\").replace('"', '\\"') + '"'


def lean_list(items):
    return "[" + ", ".join(items) + "]"


def tables(repo):
    t = {}
    qint = _parse(repo, "qlasskit/types/qint.py")
    cl = _class_consts(qint)
    names = _names(_list_assign(qint, "QINT_TYPES"))
    t["qintTypes"] = [(n, _resolve(cl, n, "BIT_SIZE")) for n in names]
    qfixed = _parse(repo, "qlasskit/types/qfixed.py")
    cf = _class_consts(qfixed)
    names = _names(_list_assign(qfixed, "QFIXED_TYPES"))
    t["qfixedTypes"] = [
        (n, _resolve(cf, n, "BIT_SIZE"), _resolve(cf, n, "BIT_SIZE_INTEGER"), _resolve(cf, n, "BIT_SIZE_FRACTIONAL"))
        for n in names
    ]
    qchar = _parse(repo, "qlasskit/types/qchar.py")
    t["qcharBits"] = _resolve(_class_consts(qchar), "Qchar", "BIT_SIZE")
    # const_to_qtype candidate list
    init = _parse(repo, "qlasskit/types/__init__.py")
    f = _find_func(init, "const_to_qtype")
    cands = None
    for node in ast.walk(f):
        if isinstance(node, ast.For) and isinstance(node.iter, ast.List):
            cands = _names(node.iter)
            break
    if cands is None:
        raise KeyError("const_to_qtype candidate list")
    allq = dict(t["qintTypes"])
    t["constQintCandidates"] = [(n, allq[n]) for n in cands]
    # comparators of t_expression (C01): the list `comparators = [(ast.Eq, "eq"), ...]`
    texp = _parse(repo, "qlasskit/ast2logic/t_expression.py")
    comps = None
    for node in ast.walk(texp):
        if (isinstance(node, ast.Assign) and len(node.targets) == 1 and isinstance(node.targets[0], ast.Name)
                and node.targets[0].id == "comparators" and isinstance(node.value, ast.List)):
            comps = []
            for e in node.value.elts:
                if (isinstance(e, ast.Tuple) and len(e.elts) == 2 and isinstance(e.elts[0], ast.Attribute)
                        and isinstance(e.elts[1], ast.Constant)):
                    comps.append((e.elts[0].attr, e.elts[1].value))
                else:
                    raise KeyError("t_expression.py: comparators entry")
    if comps is None:
        raise KeyError("t_expression.py: comparators")
    t["comparators"] = comps
    # C11: ZB_GATES of the decompiler and the class hierarchy of gates.py
    dec = _parse(repo, "qlasskit/decompiler/decompiler.py")
    t["zbGates"] = _names(_list_assign(dec, "ZB_GATES"))
    gcl = _class_consts(_parse(repo, "qlasskit/qcircuit/gates.py"))
    anc = []
    for cname in gcl:
        chain, c = [], cname
        while c is not None and c not in chain:
            chain.append(c)
            bases = gcl[c][0] if c in gcl else []
            c = bases[0] if bases else None
        anc.append((cname, chain))
    t["gateAncestors"] = anc
    _c04_tables(repo, t)
    # C18: the formats offered by to_bqm (`BQMFormat = Literal[...]` in bqm.py)
    bqm = _parse(repo, "qlasskit/bqm.py")
    fm = None
    for node in ast.walk(bqm):
        if (isinstance(node, ast.Assign) and len(node.targets) == 1 and isinstance(node.targets[0], ast.Name)
                and node.targets[0].id == "BQMFormat" and isinstance(node.value, ast.Subscript)):
            sl = node.value.slice
            elts = sl.elts if isinstance(sl, ast.Tuple) else [sl]
            fm = [e.value for e in elts if isinstance(e, ast.Constant) and isinstance(e.value, str)]
    if fm is None:
        raise KeyError("bqm.py: BQMFormat")
    t.setdefault("_extra", []).append(
        "/-- `BQMFormat = Literal[...]` of bqm.py, in source order -/\ndef bqmFormats : List String := "
        + lean_list(lean_str(x) for x in fm))
    return t


def _c04_tables(repo, t):
    """C04: step lists of the shipped optimizer profiles, DISABLE_OR"""
    bo = _parse(repo, "qlasskit/boolopt/bool_optimizer.py")

    def steps(name):
        v = _list_assign(bo, name)
        if not (isinstance(v, ast.Call) and isinstance(v.func, ast.Name) and v.func.id == "BoolOptimizerProfile"
                and len(v.args) == 1 and isinstance(v.args[0], ast.List)):
            raise ValueError(f"{name} is not BoolOptimizerProfile([...])")
        out = []
        for e in v.args[0].elts:
            if isinstance(e, ast.Name):
                out.append(e.id)
            elif isinstance(e, ast.Call) and isinstance(e.func, ast.Name) and not e.args and not e.keywords:
                out.append(e.func.id)
            else:
                raise ValueError(f"unexpected step in {name}: {ast.dump(e)}")
        return out

    t["defaultOptimizerSteps"] = steps("defaultOptimizer")
    t["fastOptimizerSteps"] = steps("fastOptimizer")
    et = _parse(repo, "qlasskit/boolopt/exp_transformers.py")
    d = _list_assign(et, "DISABLE_OR")
    if not (isinstance(d, ast.Constant) and isinstance(d.value, bool)):
        raise ValueError("DISABLE_OR is not a bool literal")
    t["disableOr"] = d.value
    ex = t.setdefault("_extra", [])
    ex.append("/-- step list of `defaultOptimizer` (bool_optimizer.py), in source order -/\n"
              "def defaultOptimizerSteps : List String := " + lean_list(lean_str(x) for x in t["defaultOptimizerSteps"]))
    ex.append("/-- step list of `fastOptimizer` -/\n"
              "def fastOptimizerSteps : List String := " + lean_list(lean_str(x) for x in t["fastOptimizerSteps"]))
    ex.append("/-- `DISABLE_OR` of exp_transformers.py -/\n"
              "def disableOr : Bool := " + ("true" if t["disableOr"] else "false"))
    t.setdefault("_extra", []).extend(_c10_tables(repo))
    t.setdefault("_extra", []).extend(_c07_tables(repo))
    return t


def _c07_tables(repo):
    """C07: the names `Env.bind_function` refuses besides the known types (`RESERVED_FUNCTION_NAMES` of env.py, a
    tuple of string literals); a tree without the constant refuses none"""
    tree = _parse(repo, "qlasskit/ast2logic/env.py")
    try:
        node = _list_assign(tree, "RESERVED_FUNCTION_NAMES")
    except KeyError:
        names = []
    else:
        if not isinstance(node, (ast.List, ast.Tuple)) or not all(
                isinstance(e, ast.Constant) and isinstance(e.value, str) for e in node.elts):
            raise ValueError("RESERVED_FUNCTION_NAMES: expected a tuple of string literals")
        names = [e.value for e in node.elts]
    return [
        "/-- `RESERVED_FUNCTION_NAMES` of ast2logic/env.py, in source order -/\n"
        "def reservedFunctionNames : List String := " + lean_list(lean_str(n) for n in names),
    ]


def _c10_tables(repo):
    """C10: what QlassF.from_function does with a source string -- is it exec'd into the module's
    own globals, and which locals are bound when `eval(name)` (implicit namespaces) runs."""
    tree = _parse(repo, "qlasskit/qlassfun.py")
    ff = _find_func(tree, "from_function")
    a = ff.args
    bound = [x.arg for x in a.posonlyargs + a.args + a.kwonlyargs]
    exec_globals = False
    eval_locals = None
    for stmt in ff.body:
        for node in ast.walk(stmt):
            if isinstance(node, ast.Call) and isinstance(node.func, ast.Name):
                if node.func.id == "exec" and len(node.args) == 2 and isinstance(node.args[1], ast.Call) \
                        and isinstance(node.args[1].func, ast.Name) and node.args[1].func.id == "globals":
                    exec_globals = True
                if node.func.id == "eval" and len(node.args) == 1 and eval_locals is None:
                    eval_locals = list(bound)
        if isinstance(stmt, (ast.FunctionDef, ast.ClassDef)):
            bound.append(stmt.name)
        else:
            for node in ast.walk(stmt):
                if isinstance(node, ast.Name) and isinstance(node.ctx, ast.Store) and node.id not in bound:
                    bound.append(node.id)
    return [
        "/-- `QlassF.from_function` contains `exec(f, globals())` -/\n"
        "def fromFunctionExecsIntoGlobals : Bool := " + ("true" if exec_globals else "false"),
        "/-- locals of `QlassF.from_function` bound when it calls `eval(name)` with implicit namespaces -/\n"
        "def fromFunctionLocalsAtEval : List String := " + lean_list(lean_str(n) for n in (eval_locals or [])),
    ]


def render(t):
    L = []
    L.append("/-! GENERATED by harness/extract.py from the current qlasskit sources -- do not edit. -/")
    L.append("namespace QV.Gen")
    L.append("")
    L.append("/-- `QINT_TYPES`: (class name, BIT_SIZE) in source order -/")
    L.append("def qintTypes : List (String × Nat) := " + lean_list(f"({lean_str(n)}, {w})" for n, w in t["qintTypes"]))
    L.append("")
    L.append("/-- `QFIXED_TYPES`: (class name, BIT_SIZE, BIT_SIZE_INTEGER, BIT_SIZE_FRACTIONAL) -/")
    L.append(
        "def qfixedTypes : List (String × Nat × Nat × Nat) := "
        + lean_list(f"({lean_str(n)}, {b}, {i}, {f})" for n, b, i, f in t["qfixedTypes"])
    )
    L.append("")
    L.append("def qcharBits : Nat := " + str(t["qcharBits"]))
    L.append("")
    L.append("/-- candidate list of `const_to_qtype` for ints, in source order -/")
    L.append(
        "def constQintCandidates : List (String × Nat) := "
        + lean_list(f"({lean_str(n)}, {w})" for n, w in t["constQintCandidates"])
    )
    L.append("")
    L.append("/-- comparator table of `translate_expression`: ast class -> method name, in source order -/")
    L.append("def comparators : List (String × String) := "
             + lean_list(f"({lean_str(a)}, {lean_str(b)})" for a, b in t["comparators"]))
    L.append("")
    L.append("/-- `ZB_GATES` of decompiler.py: class names in source order -/")
    L.append("def zbGates : List String := " + lean_list(lean_str(n) for n in t["zbGates"]))
    L.append("")
    L.append("/-- classes of gates.py: (class, [class, base, base of base, ...]) -/")
    L.append(
        "def gateAncestors : List (String × List String) := "
        + lean_list(f"({lean_str(n)}, {lean_list(lean_str(a) for a in ch)})" for n, ch in t["gateAncestors"])
    )
    for extra in t.get("_extra", []):
        L.append("")
        L.append(extra)
    L.append("")
    L.append("end QV.Gen")
    return "\n".join(L) + "\n"


def write_tables(repo, path):
    t = tables(repo)
    txt = render(t)
    os.makedirs(os.path.dirname(path), exist_ok=True)
    old = None
    if os.path.exists(path):
        old = open(path).read()
    if old != txt:
        with open(path, "w") as f:
            f.write(txt)
    return t


if __name__ == "__main__":
    import sys

    print(render(tables(sys.argv[1] if len(sys.argv) > 1 else "/repo")))
