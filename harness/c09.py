"""C09 - type codecs are exact and mutually inverse.

Always-on search on the real code: every shipped scalar type x every bit pattern (exhaustive
up to 12 bits, Qint16 sampled + boundaries) -> pattern round trip, value round trip,
const == runtime encoding, one-hot amplitude index; nested Tuple/Qlist/Qmatrix types by a
type-directed generator -> interpret_as_qtype inverts the concatenated element encodings.
Correspondence: the same operations through the Lean model (QV.Model.Types), compared exactly.
"""
from __future__ import annotations

import importlib
from typing import Tuple

from .common import Ctx, Result

LEVEL = "proof"


def bits_of(n, w):
    return [bool((n >> k) & 1) for k in range(w)]


def bstr(bs):
    return "".join("1" if b else "0" for b in bs)


def scalar_types(T):
    out = []
    for t in T.QINT_TYPES:
        out.append(("qint", t, dict(w=t.BIT_SIZE)))
    for t in T.QFIXED_TYPES:
        out.append(("qfixed", t, dict(i=t.BIT_SIZE_INTEGER, f=t.BIT_SIZE_FRACTIONAL)))
    out.append(("qchar", T.Qchar, dict()))
    return out


def code_scalar(kind, t, extra, bs):
    """Everything the real code says about one pattern; exceptions become strings."""
    out = {}
    try:
        v = t.from_bool(list(bs))
        if kind == "qint":
            val = int(v.value)
            cst = val
        elif kind == "qchar":
            val = ord(v.value)
            cst = v.value
        else:
            sv = v.value * 2 ** extra["f"]
            if sv != int(sv):
                out["value"] = f"non-dyadic {v.value}"
                return out
            val = int(sv)
            cst = v.value
        out["value"] = val
        tb = v.to_bool()
        out["to_bool"] = bstr(tb)
        c = t.const(cst)
        out["const"] = bstr(c[1])
        out["const_type_ok"] = c[0] is t
        out["const_is_const"] = all(type(x) is bool for x in c[1])
        amp = v.to_amplitudes()
        nz = [i for i, a in enumerate(amp) if a != 0]
        out["amp_len"] = len(amp)
        out["amp_index"] = nz[0] if len(nz) == 1 and amp[nz[0]] == 1 else None
        v2 = t.from_bool(tb)
        out["value2_same"] = (v2.value == v.value)
        out["to_bin"] = v.to_bin()
    except Exception as e:  # noqa
        out["exception"] = f"{type(e).__name__}: {e}"
    return out


def gen_type(rng, T, depth):
    """random nested type: returns (json type, python typing object)"""
    r = rng.random()
    if depth <= 0 or r < 0.45:
        k = rng.choice(["bool", "qint", "qint", "qchar", "qfixed"])
        if k == "bool":
            return ["bool"], bool
        if k == "qint":
            t = rng.choice(T.QINT_TYPES[:7])
            return ["qint", t.BIT_SIZE], t
        if k == "qchar":
            return ["qchar"], T.Qchar
        t = rng.choice(T.QFIXED_TYPES)
        return ["qfixed", t.BIT_SIZE_INTEGER, t.BIT_SIZE_FRACTIONAL], t
    if r < 0.75:
        n = rng.randint(1, 3)
        els = [gen_type(rng, T, depth - 1) for _ in range(n)]
        return ["tuple"] + [e[0] for e in els], Tuple[tuple(e[1] for e in els)]
    if r < 0.9:
        el = gen_type(rng, T, 0)
        n = rng.randint(1, 4)
        if el[1] is bool or isinstance(el[1], type):
            py = T.Qlist[el[1], n]
        else:
            py = Tuple[(el[1],) * n]
        return ["tuple"] + [el[0]] * n, py
    el = gen_type(rng, T, 0)
    n, m = rng.randint(1, 3), rng.randint(1, 3)
    py = T.Qmatrix[el[1], n, m]
    return ["tuple"] + [["tuple"] + [el[0]] * n] * m, py


def ty_size(tj):
    k = tj[0]
    if k == "bool":
        return 1
    if k == "qint":
        return tj[1]
    if k == "qchar":
        return 8
    if k == "qfixed":
        return tj[1] + tj[2]
    return sum(ty_size(x) for x in tj[1:])


def gen_val(rng, tj):
    k = tj[0]
    if k == "bool":
        return {"b": rng.random() < 0.5}
    if k == "qint":
        return {"i": rng.randrange(2 ** tj[1])}
    if k == "qchar":
        return {"c": rng.randrange(256)}
    if k == "qfixed":
        return {"f": rng.randrange(2 ** (tj[1] + tj[2]))}
    return {"t": [gen_val(rng, x) for x in tj[1:]]}


def code_encode(T, tj, py, vj):
    """concatenated element encodings by the real to_bool methods"""
    from typing import get_args

    k = tj[0]
    if k == "bool":
        return [vj["b"]]
    if k == "qint":
        return py(vj["i"]).to_bool()
    if k == "qchar":
        return T.Qchar(chr(vj["c"])).to_bool()
    if k == "qfixed":
        return py(vj["f"] / 2 ** tj[2]).to_bool()
    out = []
    for sub_t, sub_py, sub_v in zip(tj[1:], get_args(py), vj["t"]):
        out += code_encode(T, sub_t, sub_py, sub_v)
    return out


def code_val_to_json(tj, v):
    k = tj[0]
    if k == "bool":
        return {"b": bool(v)} if isinstance(v, bool) else {"?": repr(v)}
    if k == "qint":
        return {"i": int(v.value)}
    if k == "qchar":
        return {"c": ord(v.value)}
    if k == "qfixed":
        sv = v.value * 2 ** tj[2]
        return {"f": int(sv)} if sv == int(sv) else {"?": repr(v.value)}
    if not isinstance(v, tuple) or len(v) != len(tj) - 1:
        return {"?": repr(v)}
    return {"t": [code_val_to_json(t, x) for t, x in zip(tj[1:], v)]}


def run(ctx: Ctx) -> Result:
    res = Result("C09")
    T = importlib.import_module("qlasskit.types")
    rng = ctx.rng
    res.rule = (
        "systematic: every shipped Qint/Qfixed/Qchar type x every bit pattern of its width "
        "(exhaustive for w<=12; Qint16: boundaries + random sample), each case = (type, pattern), "
        "non-trivial = pattern not all-zero; then random nested Tuple/Qlist/Qmatrix types x random "
        "values (distinct by (type, value)); plus out-of-range constants per type"
    )
    reqs, cases = [], []
    # ---- scalar types, exhaustive
    for kind, t, extra in scalar_types(T):
        w = t.BIT_SIZE
        if w <= 12:
            pats = range(2 ** w)
        else:
            n = 20000 if ctx.thorough else 3000
            pats = sorted(set([0, 1, 2, 2 ** w - 1, 2 ** w - 2, 2 ** (w - 1), 2 ** (w - 1) - 1, 255, 256]
                              + [rng.randrange(2 ** w) for _ in range(n)]))
        for n in pats:
            bs = bits_of(n, w)
            case = dict(type=t.__name__, bits=bstr(bs))
            res.count(case, nontrivial=(n != 0), bucket=t.__name__)
            code = code_scalar(kind, t, extra, bs)
            # --- the property, on the real code
            exp_idx = n
            if "exception" in code:
                res.violation(case, "codec raised", code=code)
            else:
                if code.get("to_bool") != bstr(bs):
                    res.violation(case, "decode->encode does not return the pattern", code=code, expected=bstr(bs))
                elif code.get("const") != code.get("to_bool") or not code["const_type_ok"] or not code["const_is_const"]:
                    res.violation(case, "constant encoding differs from runtime encoding", code=code)
                elif code.get("amp_len") != 2 ** w or code.get("amp_index") != exp_idx:
                    res.violation(case, "amplitude vector is not one-hot at the index whose bit k is bit k of the encoding",
                                  code=code, expected=dict(amp_len=2 ** w, amp_index=exp_idx))
                elif not code.get("value2_same"):
                    res.violation(case, "encode->decode does not return the value", code=code)
                elif code.get("to_bin") != bstr(bs):
                    res.violation(case, "to_bin differs from to_bool", code=code)
            req = dict(op="c09.scalar", kind=kind, bits=bstr(bs))
            req.update(extra)
            reqs.append(req)
            cases.append((case, code))
    replies = ctx.model(reqs)
    if replies is not None:
        for (case, code), rep in zip(cases, replies):
            if "exception" in code:
                mdl_exc = rep.get("value", 0) is None
                if not mdl_exc:
                    res.disagree(case, "code raises, model does not", code=code, model=rep)
                continue
            for k in ("value", "to_bool", "const", "amp_len", "amp_index"):
                if rep.get(k) != code.get(k):
                    res.disagree(case, f"model and code differ on {k}", code=code, model=rep)
                    break
    # ---- out-of-range constants: const(v) vs to_bool of the constructed value
    reqs, cases = [], []
    for kind, t, extra in scalar_types(T):
        w = t.BIT_SIZE
        if kind == "qint":
            vals = [2 ** w, 2 ** w + 1, 2 ** w + 5, 3 * 2 ** w - 1, 2 ** (w + 3) + 2] + [rng.randrange(2 ** (w + 4)) for _ in range(10)]
            for v in vals:
                case = dict(type=t.__name__, const_value=v)
                res.count(case, bucket="const-" + kind)
                try:
                    c = bstr(t.const(v)[1])
                    tb = bstr(t(v).to_bool())
                except Exception as e:  # noqa
                    res.violation(case, f"const/to_bool raised {type(e).__name__}: {e}")
                    continue
                if c != tb:
                    res.violation(case, "constant encoding differs from runtime encoding", code=dict(const=c, to_bool=tb))
                req = dict(op="c09.const", kind=kind, value=v)
                req.update(extra)
                reqs.append(req)
                cases.append((case, dict(const=c, to_bool=tb)))
        elif kind == "qfixed":
            f = extra["f"]
            i = extra["i"]
            vals = [2 ** (i + f), 2 ** (i + f) + 3, 2 ** (i + f + 1) + 1] + [rng.randrange(2 ** (i + f + 2)) for _ in range(10)]
            for sv in vals:
                case = dict(type=t.__name__, const_scaled_value=sv)
                res.count(case, bucket="const-" + kind)
                try:
                    c = bstr(t.const(sv / 2 ** f)[1])
                    tb = bstr(t(sv / 2 ** f).to_bool())
                except Exception as e:  # noqa
                    res.violation(case, f"const/to_bool raised {type(e).__name__}: {e}")
                    continue
                if c != tb:
                    res.violation(case, "constant encoding differs from runtime encoding", code=dict(const=c, to_bool=tb))
                req = dict(op="c09.const", kind=kind, value=sv)
                req.update(extra)
                reqs.append(req)
                cases.append((case, dict(const=c, to_bool=tb)))
    replies = ctx.model(reqs)
    if replies is not None:
        for (case, code), rep in zip(cases, replies):
            if rep.get("const") != code["const"] or rep.get("to_bool") != code["to_bool"]:
                res.disagree(case, "model and code differ on out-of-range constant", code=code, model=rep)
    # ---- const_to_qtype picks the least listed width that fits (table-driven in the proofs)
    for v in list(range(0, 70)) + [255, 256, 4095, 4096, 65535]:
        case = dict(const_to_qtype=v)
        res.count(case, bucket="const_to_qtype")
        try:
            ty, bits = T.const_to_qtype(v)
        except Exception as e:  # noqa
            res.violation(case, f"const_to_qtype raised {e}")
            continue
        fits = [t for t in T.QINT_TYPES if v < 2 ** t.BIT_SIZE]
        dec = sum(1 << k for k, b in enumerate(bits) if b)
        if dec != v or len(bits) != ty.BIT_SIZE or v >= 2 ** ty.BIT_SIZE:
            res.violation(case, "const_to_qtype encodes a different value", code=dict(type=ty.__name__, bits=bstr(bits)))
    # ---- nested types
    n_nested = 3000 if ctx.thorough else 400
    reqs, cases = [], []
    for k in range(n_nested):
        tj, py = gen_type(rng, T, 3 if k % 3 else 2)
        if tj[0] != "tuple":
            tj, py = ["tuple", tj], Tuple[(py,)]
        vj = gen_val(rng, tj)
        case = dict(type=tj, value=vj)
        res.count(case, bucket="nested")
        try:
            enc = code_encode(T, tj, py, vj)
            measured = bstr(enc)[::-1]
            mode = k % 3
            if mode == 0:
                got = T.interpret_as_qtype(measured, py)
            elif mode == 1:
                got = T.interpret_as_qtype([c == "1" for c in measured], py, len(measured))
            else:
                got = T.interpret_as_qtype(measured, py, len(measured))
            gj = code_val_to_json(tj, got)
        except Exception as e:  # noqa
            res.violation(case, f"interpret_as_qtype raised {type(e).__name__}: {e}")
            continue
        if gj != vj:
            res.violation(case, "decoding the concatenated element encodings does not return the value",
                          code=dict(measured=measured, decoded=gj))
        reqs.append(dict(op="c09.encode", ty=tj, val=vj))
        reqs.append(dict(op="c09.interpret", ty=tj, out=measured))
        cases.append((case, bstr(enc), gj))
    replies = ctx.model(reqs)
    if replies is not None:
        for idx, (case, enc, gj) in enumerate(cases):
            r_enc, r_int = replies[2 * idx], replies[2 * idx + 1]
            if r_enc.get("bits") != enc:
                res.disagree(case, "model and code differ on nested encoding", code=enc, model=r_enc)
            elif r_int.get("value") != gj:
                res.disagree(case, "model and code differ on interpret_as_qtype", code=gj, model=r_int)
    res.exhaustive = True
    res.notes.append("scalar types with w<=12 enumerated completely; Qint16 and nested types sampled")
    return res


def witness_fails(ctx: Ctx, f):
    """does the recorded witness of a finding (still / again) violate the property on the real code?"""
    T = importlib.import_module("qlasskit.types")
    w = f.get("witness", {})
    for kind, t, extra in scalar_types(T):
        if t.__name__ == w.get("type"):
            bs = [c == "1" for c in w["bits"]]
            code = code_scalar(kind, t, extra, bs)
            n = sum(1 << k for k, b in enumerate(bs) if b)
            return not (code.get("to_bool") == w["bits"] and code.get("const") == w["bits"]
                        and code.get("amp_index") == n and code.get("amp_len") == 2 ** len(bs))
    return None


def replay(ctx: Ctx, payload):
    import json

    T = importlib.import_module("qlasskit.types")
    first = payload.get("first") or {}
    case = first.get("case", {})
    print("replaying", json.dumps(case))
    for kind, t, extra in scalar_types(T):
        if t.__name__ == case.get("type") and "bits" in case:
            code = code_scalar(kind, t, extra, [c == "1" for c in case["bits"]])
            print(json.dumps(code, indent=1))
            ok = code.get("to_bool") == case["bits"] and code.get("const") == code.get("to_bool")
            return 0 if ok else 1
    return 2
