"""Recording stand-in for the `pyqubo` package (which is NOT installed in this sandbox).

`install()` puts this module into `sys.modules['pyqubo']` of the *harness process only*, so that
`qlasskit.bqm.to_bqm` runs and hands us the expression tree it builds.  Nothing of real pyqubo
is executed; everything below is a STATED ASSUMPTION taken from pyqubo's documentation
(pyqubo 1.x "Logical Gate" / "Logical Constraint" reference pages and `pyqubo/logical_gate.py`,
`pyqubo/logical_constraint.py`):

  node                         signature                    polynomial over 0/1 variables
  ---------------------------  ---------------------------  -------------------------------------
  Binary(label)                (label: str)                 x_label
  Not(bit)                     exactly 1 operand            1 - a
  And(bit_a, bit_b)            exactly 2 operands           a*b
  Or(bit_a, bit_b)             exactly 2 operands           a + b - a*b
  Xor(bit_a, bit_b)            exactly 2 operands           a + b - 2*a*b
  NotConst(a, b, label)        "Not(a) = b"                 2*a*b - a - b + 1
  AndConst(a, b, c, label)     "And(a, b) = c"              a*b - 2*(a + b)*c + 3*c
  OrConst(a, b, c, label)      "Or(a, b) = c"               a*b + (a + b)*(1 - 2*c) + c
  XorConst(a, b, c, label)     "Xor(a, b) = c"              2*a*b - 2*(a+b)*c - 4*(a+b)*x + 4*x*c
                                                            + a + b + c + 4*x,  x = Binary(label+"_aux")
  e1 + e2, e + number, number + e                           sum (Python bools count as 0/1)
  e.compile()                  -> Model                     (identity here: the tree is kept)
  Model.to_bqm()/to_qubo()/to_ising()                       NOT REPRODUCED: they return a tagged
                                                            record holding the tree; real pyqubo
                                                            reduces the degree with further
                                                            auxiliaries - outside proof and
                                                            comparison
  Model.decode_sampleset(ss)   -> objects with .sample (dict label -> 0/1) and .energy

Operands may be stub nodes or Python numbers/bools (pyqubo's operators accept numbers).  A
call with the wrong number of positional operands raises TypeError, as the Python signatures
above would.
"""
from __future__ import annotations

import numbers
import sys
import types


class Base:
    tag = "?"

    def __init__(self, *kids, label=None):
        self.kids = list(kids)
        self.label = label

    # pyqubo expressions support + with expressions and numbers on both sides
    def __add__(self, other):
        if isinstance(other, (Base, numbers.Number)):
            return Add(self, other)
        return NotImplemented

    def __radd__(self, other):
        if isinstance(other, numbers.Number):
            return Add(other, self)
        return NotImplemented

    def compile(self, strength=5.0):
        return Model(self)

    def to_json(self):
        out = [self.tag]
        for k in self.kids:
            out.append(node_json(k))
        if self.label is not None:
            out.append(self.label)
        return out


def node_json(k):
    if isinstance(k, Base):
        return k.to_json()
    if isinstance(k, bool):
        return ["num", 1 if k else 0]
    if isinstance(k, numbers.Integral):
        return ["num", int(k)]
    raise TypeError(f"operand of a pyqubo expression is neither expression nor number: {k!r}")


def _chk(*ops):
    for o in ops:
        if not isinstance(o, (Base, numbers.Number)):
            raise TypeError(f"bad operand {o!r}")


class Binary(Base):
    tag = "bin"

    def __init__(self, label):
        if not isinstance(label, str):
            raise TypeError("Binary label must be str")
        super().__init__(label=label)


class Add(Base):
    tag = "add"

    def __init__(self, a, b):
        _chk(a, b)
        super().__init__(a, b)


class Not(Base):
    tag = "not"

    def __init__(self, bit):
        _chk(bit)
        super().__init__(bit)


class And(Base):
    tag = "and"

    def __init__(self, bit_a, bit_b):
        _chk(bit_a, bit_b)
        super().__init__(bit_a, bit_b)


class Or(Base):
    tag = "or"

    def __init__(self, bit_a, bit_b):
        _chk(bit_a, bit_b)
        super().__init__(bit_a, bit_b)


class Xor(Base):
    tag = "xor"

    def __init__(self, bit_a, bit_b):
        _chk(bit_a, bit_b)
        super().__init__(bit_a, bit_b)


class NotConst(Base):
    tag = "notc"

    def __init__(self, a, b, label):
        _chk(a, b)
        super().__init__(a, b, label=label)


class AndConst(Base):
    tag = "andc"

    def __init__(self, a, b, c, label):
        _chk(a, b, c)
        super().__init__(a, b, c, label=label)


class OrConst(Base):
    tag = "orc"

    def __init__(self, a, b, c, label):
        _chk(a, b, c)
        super().__init__(a, b, c, label=label)


class XorConst(Base):
    tag = "xorc"

    def __init__(self, a, b, c, label):
        _chk(a, b, c)
        super().__init__(a, b, c, label=label)


class Exported:
    """what the stub's to_bqm/to_qubo/to_ising return: the format tag and the untouched tree"""

    def __init__(self, fmt, tree):
        self.fmt = fmt
        self.tree = tree


class StubDecoded:
    def __init__(self, sample, energy):
        self.sample = sample
        self.energy = energy


class Model:
    def __init__(self, tree):
        self.tree = tree

    def to_bqm(self, *a, **k):
        return Exported("bqm", self.tree)

    def to_qubo(self, *a, **k):
        return Exported("qubo", self.tree)

    def to_ising(self, *a, **k):
        return Exported("ising", self.tree)

    def decode_sampleset(self, sampleset, *a, **k):
        """sampleset here: iterable of (sample dict, energy)"""
        return [StubDecoded(dict(s), e) for s, e in sampleset]


# ---------------------------------------------------------------- reference polynomial semantics


def eval_tree(j, env):
    """value of the JSON tree under a 0/1 assignment `env` (dict label -> 0/1); the documented
    polynomials, independent of the Lean model"""
    t = j[0]
    if t == "num":
        return j[1]
    if t == "bin":
        return 1 if env[j[1]] else 0
    if t == "add":
        return eval_tree(j[1], env) + eval_tree(j[2], env)
    if t == "not":
        return 1 - eval_tree(j[1], env)
    a = eval_tree(j[1], env)
    b = eval_tree(j[2], env)
    if t == "and":
        return a * b
    if t == "or":
        return a + b - a * b
    if t == "xor":
        return a + b - 2 * a * b
    if t == "notc":
        return 2 * a * b - a - b + 1
    c = eval_tree(j[3], env)
    if t == "andc":
        return a * b - 2 * (a + b) * c + 3 * c
    if t == "orc":
        return a * b + (a + b) * (1 - 2 * c) + c
    if t == "xorc":
        x = 1 if env[j[4] + "_aux"] else 0
        return 2 * a * b - 2 * (a + b) * c - 4 * (a + b) * x + 4 * x * c + a + b + c + 4 * x
    raise ValueError(t)


def tree_vars(j, acc=None):
    """labels of the binary variables of the tree, first occurrence order"""
    if acc is None:
        acc = []
    t = j[0]
    if t == "bin":
        if j[1] not in acc:
            acc.append(j[1])
        return acc
    if t == "num":
        return acc
    for x in j[1:]:
        if isinstance(x, list):
            tree_vars(x, acc)
    if t == "xorc" and (j[4] + "_aux") not in acc:
        acc.append(j[4] + "_aux")
    return acc


def install():
    """register this module as `pyqubo` (harness process only); refuses to shadow a real pyqubo"""
    cur = sys.modules.get("pyqubo")
    if cur is not None and getattr(cur, "__qv_stub__", False):
        return cur
    m = types.ModuleType("pyqubo")
    m.__qv_stub__ = True
    for n in ("Binary", "Not", "And", "Or", "Xor", "NotConst", "AndConst", "OrConst", "XorConst",
              "Add", "Model", "Base"):
        setattr(m, n, globals()[n])
    sys.modules["pyqubo"] = m
    return m
