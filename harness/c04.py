"""C04 - boolean optimizer profiles preserve meaning.

Always-on search on the real code: definition lists (systematic rule-shaped slice, random lists with
n-ary operators / ITE / Implies / shared and re-bound intermediates, and the lists the real front end
produces for a pool of small programs) go through every single step of the shipped profiles and
through the whole profiles (real `BoolOptimizerProfile.apply`).  Oracle, independent of qlasskit and
of sympy's evaluation: the JSON form of the lists evaluated sequentially by `bexp.eval_json` on every
assignment of the free symbols: every `_ret*` symbol keeps its function, the list of bound return
symbols is unchanged, no new free symbol.
Correspondence: the same expressions / lists through the Lean model (QV.Model.Opt), compared
structurally after passing the model's raw tree through sympy's constructors; `simplify_logic` and
`cse` enter the model as the tables of calls observed on the real code, each checked against the spec
the theorems assume.
"""
from __future__ import annotations

import importlib
import itertools
import json

from . import bexp
from .common import Ctx, Result

LEVEL = "proof"

TRANSFORMERS = ["remove_ITE", "remove_Implies", "transform_or2xor", "transform_or2and", "remove_obvious_expr"]
LIST_STEPS = ["merge_expressions", "apply_cse"]
MAX_FREE = 9


# ----------------------------------------------------------------------------- oracle (own evaluator)
def is_ret(n):
    return n == "_ret" or n.startswith("_ret.")


def defs_json(exps):
    return [[s.name, bexp.to_json(e)] for s, e in exps]


def defs_from_json(dj):
    from sympy import Symbol

    return [(Symbol(n), bexp.from_json(e, evaluate=False)) for n, e in dj]


def free_syms(dj):
    """symbols read before (re)definition, in order of first read"""
    out, bound = [], set()
    for n, e in dj:
        for v in bexp.syms_json(e):
            if v not in bound and v not in out:
                out.append(v)
        bound.add(n)
    return out


def ret_names(dj):
    return [n for n, _ in dj if is_ret(n)]


def reads_ret(dj):
    return any(is_ret(v) for _, e in dj for v in bexp.syms_json(e))


def seq_eval(dj, env):
    env = dict(env)
    for n, e in dj:
        env[n] = bexp.eval_json(e, env)
    return env


def ret_table(dj, inputs, rets):
    rows = []
    for k in range(2 ** len(inputs)):
        env = {n: bool((k >> i) & 1) for i, n in enumerate(inputs)}
        env = seq_eval(dj, env)
        rows.append("".join("1" if env.get(r, False) else "0" for r in rets))
    return "".join(rows)


def check_property(before, after):
    """None when `after` preserves `before`; else (what, detail)"""
    fb, fa = free_syms(before), free_syms(after)
    rb, ra = ret_names(before), ret_names(after)
    if ra != rb:
        return "the list of bound return symbols changed", dict(before=rb, after=ra)
    new = [v for v in fa if v not in fb]
    if new:
        return "a free symbol was introduced", dict(new=new)
    rets = sorted(set(rb))
    tb, ta = ret_table(before, fb, rets), ret_table(after, fb, rets)
    if tb != ta:
        k = next(i for i in range(len(tb)) if tb[i] != ta[i])
        row, col = divmod(k, max(1, len(rets)))
        env = {n: bool((row >> i) & 1) for i, n in enumerate(fb)}
        return "a return symbol changed its boolean function", dict(
            assignment=env, symbol=rets[col], before=tb[k], after=ta[k])
    return None


def expr_equiv(ej_in, ej_out):
    """(same function, no new symbols) for two expressions"""
    si, so = bexp.syms_json(ej_in), bexp.syms_json(ej_out)
    if any(v not in si for v in so):
        return False
    if len(si) > 12:
        return True
    return bexp.truth_table(si, [ej_in]) == bexp.truth_table(si, [ej_out])


# ----------------------------------------------------------------------------- the real code, observed
class Lib:
    def __init__(self):
        self.BO = importlib.import_module("qlasskit.boolopt.bool_optimizer")
        self.ET = importlib.import_module("qlasskit.boolopt.exp_transformers")
        self.simp_calls = []
        self.cse_calls = []
        self.csl_top = []
        self._depth = 0

    def step_obj(self, name):
        if name in LIST_STEPS:
            return getattr(self.BO, name)
        return getattr(self.ET, name)()

    def profile_names(self, prof):
        return [s.__name__ if callable(s) and hasattr(s, "__name__") else type(s).__name__ for s in prof.steps]

    def __enter__(self):
        BO = self.BO
        self._orig = (BO.simplify_logic, BO.cse, BO.custom_simplify_logic)
        o_simp, o_cse, o_csl = self._orig

        def simp(e, *a, **k):
            r = o_simp(e, *a, **k)
            self.simp_calls.append((e, r))
            return r

        def cse(es, *a, **k):
            r = o_cse(es, *a, **k)
            self.cse_calls.append((list(es), r))
            return r

        def csl(e):
            self._depth += 1
            try:
                r = o_csl(e)
            finally:
                self._depth -= 1
            if self._depth == 0:
                self.csl_top.append((e, r))
            return r

        BO.simplify_logic, BO.cse, BO.custom_simplify_logic = simp, cse, csl
        return self

    def __exit__(self, *a):
        self.BO.simplify_logic, self.BO.cse, self.BO.custom_simplify_logic = self._orig

    def reset(self):
        self.simp_calls, self.cse_calls, self.csl_top = [], [], []

    def run_steps(self, names, exps):
        prof = self.BO.BoolOptimizerProfile([self.step_obj(n) for n in names])
        return list(prof.apply(list(exps)))


# ----------------------------------------------------------------------------- generators
def gen_expr(rng, B, syms, depth, nary=4):
    r = rng.random()
    if depth <= 0 or r < 0.18:
        if rng.random() < 0.04:
            return rng.choice([B.true, B.false])
        s = rng.choice(syms)
        return B.Not(s) if rng.random() < 0.3 else s
    k = rng.random()
    sub = lambda: gen_expr(rng, B, syms, depth - 1, nary)  # noqa
    if k < 0.24:
        return B.And(*[sub() for _ in range(rng.randint(2, nary))])
    if k < 0.48:
        return B.Or(*[sub() for _ in range(rng.randint(2, nary))])
    if k < 0.62:
        return B.Xor(*[sub() for _ in range(rng.randint(2, 3))])
    if k < 0.74:
        return B.Not(sub())
    if k < 0.86:
        return B.ITE(sub(), sub(), sub())
    if k < 0.93:
        return B.Implies(sub(), sub())
    # xnor-shaped: Or(And(x, y[, z]), And(~x, ~y[, ~z])) with possible damage
    n = rng.choice([2, 2, 3, 3, 4])
    xs = [sub() for _ in range(n)]
    ys = [B.Not(x) for x in xs]
    m = rng.random()
    if m < 0.2:
        ys[rng.randrange(n)] = sub()
    elif m < 0.3:
        ys = ys[:-1] + [xs[-1]]
    elif m < 0.4 and n > 2:
        ys = ys[:-1]
    return B.Or(B.And(*xs), B.And(*ys))


def gen_list(rng, B, S, size_hint):
    """random definition list whose right-hand sides never read a return symbol"""
    n_in = rng.randint(2, 5)
    inputs = [S(x) for x in "abcde"[:n_in]]
    inter_names = rng.sample(["t0", "t1", "t2", "u", "x0", "x1"], rng.randint(0, 3))
    n_ret = rng.randint(1, 3)
    ret_names_ = ["_ret"] if n_ret == 1 else [f"_ret.{i}" for i in range(n_ret)]
    if rng.random() < 0.1:
        ret_names_ = ["_ret.0.1", "_retval"][:n_ret] + ret_names_[2:]
    out = []
    readable = list(inputs)
    pending_rets = list(ret_names_)
    n_defs = len(inter_names) + rng.randint(0, 2)
    for _ in range(n_defs):
        if not inter_names:
            break
        nm = rng.choice(inter_names)
        pool = readable + ([S(rng.choice(inter_names))] if rng.random() < 0.15 else [])
        out.append((S(nm), gen_expr(rng, B, pool, rng.randint(1, size_hint))))
        if S(nm) not in readable:
            readable.append(S(nm))
        if pending_rets and rng.random() < 0.25:
            out.append((S(pending_rets.pop(0)), gen_expr(rng, B, readable, rng.randint(1, size_hint))))
    for r in pending_rets:
        out.append((S(r), gen_expr(rng, B, readable, rng.randint(1, size_hint))))
    if rng.random() < 0.08 and len(ret_names_) > 0:  # a return symbol bound twice
        out.append((S(ret_names_[0]), gen_expr(rng, B, readable, 1)))
    return out


def systematic(B, S):
    """rule-shaped lists, the same for every seed: each rule's firing and near-miss shapes"""
    a, b, c, d, t = S("a"), S("b"), S("c"), S("d"), S("t")
    N = lambda x, **k: B.Not(x, **k)  # noqa
    U = dict(evaluate=False)
    R = S("_ret")
    exprs = [
        # transform_or2xor
        B.Or(B.And(a, b), B.And(N(a), N(b))), B.Or(B.And(a, N(b)), B.And(N(a), b)),
        B.Or(B.And(a, b), B.And(N(a), b)), B.Or(B.And(a, b), B.And(N(a), N(c))),
        B.Or(B.And(a, b, c), B.And(N(a), N(b), N(c))), B.Or(B.And(a, b, c), B.And(N(a), N(b), d)),
        B.Or(B.And(a, b, c), B.And(N(a), N(b))), B.Or(B.And(a, b), B.And(N(a), N(b), c)),
        B.Or(B.And(a, b, c, d), B.And(N(a), N(b), N(c), N(d))),
        B.Or(B.And(a, b), B.And(N(a), N(b)), c), B.Or(B.And(a, b), c), B.Or(a, B.And(N(a), N(b))),
        B.Or(B.And(B.Xor(a, c), b), B.And(N(B.Xor(a, c)), N(b))),
        B.Or(B.And(B.Or(a, c), b), B.And(N(B.Or(a, c)), N(b))),
        B.Or(B.And(B.ITE(a, c, d), b), B.And(N(B.ITE(a, c, d)), N(b))),
        B.And(c, B.Or(B.And(a, b), B.And(N(a), N(b)))), N(B.Or(B.And(a, b), B.And(N(a), N(b)))),
        B.Xor(c, B.Or(B.And(a, b), B.And(N(a), N(b)))), B.ITE(c, B.Or(B.And(a, b), B.And(N(a), N(b))), d),
        B.Implies(B.Or(B.And(a, b), B.And(N(a), N(b))), c),
        B.Or(B.And(a, b), B.And(N(a), N(b)), evaluate=False), B.Or(B.And(N(a), N(b)), B.And(a, b), evaluate=False),
        B.Or(B.And(b, a, **U), B.And(N(a), N(b), **U), **U),
        # transform_or2and
        B.Or(a, b), B.Or(a, b, c), B.Or(a, b, c, d), B.Or(a, B.Or(b, c, d, **U), **U), B.Or(a, B.And(b, B.Or(b, c, d))),
        B.And(a, B.Or(b, c, N(d))), N(B.Or(a, b, c)), B.Xor(a, B.Or(b, c, d)), B.ITE(B.Or(a, b, c), c, d),
        B.Or(B.Or(a, b, c, **U), d, **U), B.Or(B.ITE(a, b, c), B.Implies(c, d), N(a)),
        # remove_obvious_expr (only unevaluated trees can show these shapes)
        B.And(a, N(a), **U), B.And(N(a), a, **U), B.Or(a, N(a), **U), B.Or(N(a), a, **U),
        B.And(a, N(b), **U), B.Or(a, N(b), **U), B.And(a, N(a), b, **U), B.Or(a, N(a), b, **U),
        B.And(N(a), N(a), **U), B.And(a, a, **U), N(N(a, **U), **U), N(N(B.And(a, b), **U), **U),
        N(B.And(a, N(a), **U), **U), B.Xor(B.And(a, N(a), **U), b, **U), B.ITE(c, B.Or(a, N(a), **U), b, **U),
        B.Implies(B.And(a, N(a), **U), b, **U), B.And(B.And(a, b), N(B.And(a, b)), **U),
        # remove_ITE / remove_Implies
        B.ITE(a, b, c), B.ITE(a, b, N(b)), B.ITE(N(a), b, c), B.ITE(B.ITE(a, b, c), c, d), B.ITE(a, B.ITE(b, c, d), d),
        B.ITE(a, B.Implies(b, c), d), B.Implies(a, b), B.Implies(B.Implies(a, b), c), B.Implies(a, B.ITE(b, c, d)),
        B.And(a, B.ITE(b, c, d)), N(B.ITE(a, b, c)), B.Xor(a, B.ITE(b, c, d), B.Implies(c, d)), B.Or(a, B.Implies(b, c), d),
        B.ITE(B.Xor(a, b), B.Or(a, c, d), B.And(b, c)), B.true, B.false, a, N(a),
    ]
    # collapse shapes: an n-ary node with two operands that differ syntactically but that one rewrite
    # step maps to the SAME expression (a visitor that de-duplicates rebuilt operands is wrong for Xor)
    pairs = [
        (B.ITE(c, a, b), B.Or(B.And(c, a), B.And(N(c), b))), (B.ITE(c, a, b), B.Or(B.And(a, c), B.And(b, N(c)))),
        (B.Implies(a, b), B.Or(N(a), b)), (B.Implies(a, b), B.Or(b, N(a))),
        (B.Or(a, b, c), N(B.And(N(a), N(b), N(c)))), (B.Or(a, b, c, d), N(B.And(N(a), N(b), N(c), N(d)))),
        (B.Or(B.And(a, b), B.And(N(a), N(b))), N(B.Xor(a, b))), (B.Or(B.And(a, N(b)), B.And(N(a), b)), B.Xor(a, b)),
        (B.And(a, N(a), **U), B.false), (B.Or(a, N(a), **U), B.true),
    ]
    # nested xnor patterns: both operands of an outer (x&y)|(~x&~y) are themselves patterns the rule rewrites
    def xn(x, y):
        return B.Or(B.And(x, y), B.And(N(x), N(y)))

    def xo(x, y):
        return B.Or(B.And(x, N(y)), B.And(N(x), y))
    exprs += [xn(xn(a, b), xn(c, d)), xn(xn(a, b), xo(c, d)), xn(xo(a, b), xo(c, d)), xo(xn(a, b), xn(c, d)),
              xn(xn(a, b), c), xn(N(a), xn(b, c)), xn(xn(a, b), xn(a, c)), xn(xn(xn(a, b), c), d),
              B.Xor(xn(xn(a, b), xn(c, d)), t), B.And(xn(xn(a, b), xn(c, d)), t)]
    for x, y in pairs:
        for op in (B.Xor, B.And, B.Or):
            exprs += [op(x, y), op(y, x, **U), op(d, x, y), N(op(x, y, **U), **U)]
        exprs += [B.Xor(x, y, d), B.ITE(d, B.Xor(x, y), a), B.Implies(B.Xor(x, y), d)]
    lists = [[(R, e)] for e in exprs]
    # list-shaped: shared, re-bound, read-before-bound, cse-relevant
    lists += [
        [(t, a & b), (R, B.Xor(t, c))],
        [(t, a & b), (S("_ret.0"), (B.Xor(t, c)) & d), (S("_ret.1"), (B.Xor(t, c)) | d)],
        [(t, a & b), (S("_ret.0"), B.Xor(t, c)), (t, a | b), (S("_ret.1"), B.Xor(t, c))],
        [(S("u"), t | a), (t, b & c), (R, B.Xor(S("u"), t))],
        [(S("x0"), B.Xor(a, b) & c), (R, B.Xor(a, b) | c)],
        [(S("x0"), B.Xor(a, b) & c), (S("_ret.0"), B.Xor(a, b) | c), (S("_ret.1"), S("x0") | a)],
        [(S("_ret.0"), B.Xor(a, b) & c), (S("_ret.1"), B.Xor(a, b) | c)],
        [(S("_ret.0"), (a & b & c) | d), (S("_ret.1"), (a & b & c) ^ d), (S("_ret.2"), N(a & b & c))],
        [(t, B.ITE(a, b, c)), (S("u"), B.Implies(t, d)), (R, B.Or(t, S("u"), a))],
        [(t, a), (t, N(t)), (t, N(t) & b), (R, t)],
        [(R, a & b), (R, a | b)],
        [(S("_retx"), a & b), (R, a ^ b)],
        [(t, B.Or(B.And(a, b, c), B.And(N(a), N(b), N(c)))), (R, t ^ d)],
        [(t, a & b), (R, B.Or(B.And(t, c), B.And(N(a), N(b), N(c))))],
        [(t, a & b), (S("u"), t | c), (S("v"), B.Xor(t, S("u"))), (R, B.ITE(S("v"), t, S("u")))],
    ]
    return lists


PROGRAMS = [
    "def p0(a: bool, b: bool) -> bool:\n    return a and b",
    "def p1(a: bool, b: bool, c: bool) -> bool:\n    return (a and b and c) or (not a and not b and not c)",
    "def p2(a: bool, b: bool, c: bool) -> bool:\n    x = a and b\n    return (x and c) or (not a and not b and not c)",
    "def p3(a: bool, b: bool) -> bool:\n    return (a and b) or (not a and not b)",
    "def p4(a: bool, b: bool, c: bool) -> bool:\n    return b if a else c",
    "def p5(a: bool, b: bool, c: bool, d: bool) -> bool:\n    x = a or b or c\n    y = x and d\n    return y or (x and not d)",
    "def p6(a: bool, b: bool, c: bool) -> Tuple[bool, bool]:\n    x = a != b\n    return (x and c, x or c)",
    "def p7(a: Qint[2], b: Qint[2]) -> bool:\n    return a == b",
    "def p8(a: Qint[2], b: Qint[2]) -> Qint[2]:\n    return a + b",
    "def p9(a: Qint[2], b: Qint[2]) -> bool:\n    return a > b",
    "def p10(a: Qint[2]) -> Qint[2]:\n    return a + 1",
    "def p11(a: Qint[2], b: bool) -> Qint[2]:\n    c = a + 1 if b else a\n    return c",
    "def p12(a: bool, b: bool, c: bool) -> bool:\n    x = a\n    x = not x\n    x = x and b\n    return x != c",
    "def p13(a: Qint[2], b: Qint[2]) -> bool:\n    return a != b and a[0]",
    "def p14(a: Tuple[bool, bool], b: bool) -> Tuple[bool, bool]:\n    return (a[1] and b, a[0] or b)",
    "def p15(a: bool, b: bool, c: bool, d: bool) -> bool:\n    return (a and b and c and d) or (not a and not b and not c and not d)",
    "def p16(a: bool, b: bool, c: bool) -> bool:\n    return (a or b or c) and not (a and b and c)",
    "def p17(a: Qint[2], b: Qint[2]) -> Qint[2]:\n    return a - b",
    "def p18(a: Qint[3]) -> bool:\n    return a == 5 or a == 2",
    "def p19(a: Qint[2], b: Qint[2], c: bool) -> Qint[2]:\n    x = a if c else b\n    return x + b",
    "def p20(a: bool, b: bool, c: bool) -> bool:\n    x = (a and b) or (not a and not b)\n    y = (x and c) or (not x and not c)\n    return y",
    "def p21(a: Qint[2], b: Qint[2]) -> bool:\n    return a <= b",
    "def p22(a: Qint[2]) -> Qint[4]:\n    return a * a",
    "def p23(a: bool, b: bool, c: bool) -> bool:\n    return (a and b and not c) or (not a and not b and c)",
]


def front_end_lists(ctx, lib, res):
    """translate_ast outputs (no optimizer) for the pool; also checks that the per-expression simplify of
    translate_ast is the identity on the list, as the model has it"""
    Q = importlib.import_module("qlasskit")
    TA = importlib.import_module("qlasskit.ast2logic.t_ast")
    out = []
    calls = []
    orig = TA.simplify_logic

    def rec(e, *a, **k):
        r = orig(e, *a, **k)
        calls.append((e, r))
        return r

    TA.simplify_logic = rec
    try:
        for src in PROGRAMS:
            calls.clear()
            try:
                qf = Q.qlassf(src, to_compile=False, bool_optimizer=lib.BO.BoolOptimizerProfile([]))
            except Exception as e:  # noqa
                ctx.log(f"[c04] front end rejected a pool program: {type(e).__name__}: {e}")
                continue
            exps = [(s, e) for s, e in qf.expressions]
            for i, r in calls:
                case = dict(front_simplify=str(i))
                res.count(case, bucket="front-simplify")
                try:
                    same = len(i) == 2 and len(r) == 2 and i[0] == r[0] and i[1] == r[1]
                except Exception:  # noqa
                    same = False
                if not same:
                    ok = False
                    try:
                        ok = i[0] == r[0] and expr_equiv(bexp.to_json(i[1]), bexp.to_json(r[1]))
                    except Exception:  # noqa
                        pass
                    if not ok:
                        res.violation(case, "translate_ast's simplify changed the meaning of a definition",
                                      code=str(r), expected=str(i))
                    else:
                        res.disagree(case, "translate_ast's simplify is no longer the identity (model: frontSimplify)",
                                     code=str(r), model=str(i))
            out.append((src.split("(")[0][4:], exps))
    finally:
        TA.simplify_logic = orig
    return out


# ----------------------------------------------------------------------------- one case = one list
def active_quirks(ctx):
    return sorted({f.get("quirk") for f in ctx.findings if f.get("status", "open") == "open" and f.get("_active") and f.get("quirk")})


def finding_for(ctx, quirk):
    for f in ctx.findings:
        if f.get("quirk") == quirk and f.get("status", "open") == "open" and f.get("_active"):
            return f
    return None


class Pending:
    """a property failure on the code waiting for attribution by the model's reply"""

    def __init__(self, case, what, detail, code, quirk, req_index, exact):
        self.case, self.what, self.detail, self.code = case, what, detail, code
        self.quirk, self.req_index, self.exact = quirk, req_index, exact


def same_tree(model_json, code_expr):
    """model's raw tree, passed through sympy's constructors, equals the code's tree"""
    try:
        if bexp.to_json(code_expr) == model_json:
            return True
        return bexp.from_json(model_json) == code_expr
    except Exception:  # noqa
        return False


def process_list(ctx, lib, res, tag, exps, reqs, checks, pend, profiles):
    dj0 = defs_json(exps)
    if len(free_syms(dj0)) > MAX_FREE:
        return
    wf = not reads_ret(dj0)
    quirks = active_quirks(ctx)
    # ---- single transformer steps
    for name in TRANSFORMERS:
        case = dict(step=name, defs=dj0)
        res.count(case, nontrivial=True, bucket=f"{tag}:{name}")
        try:
            out = lib.run_steps([name], exps)
        except Exception as e:  # noqa
            res.violation(case, f"{name} raised {type(e).__name__}: {e}")
            continue
        dj1 = defs_json(out)
        bad = check_property(dj0, dj1)
        idxs = []
        for (s, e), (s1, e1) in zip(exps, out):
            reqs.append(dict(op="c04.expr", t=name, e=bexp.to_json(e), quirks=quirks))
            idxs.append(len(reqs) - 1)
            checks.append(("expr", case, len(reqs) - 1, e1, s.name == s1.name))
        if len(out) != len(exps):
            res.violation(case, "a transformer step changed the number of definitions", code=dj1)
        elif bad:
            q = "or2xorNoArity" if name == "transform_or2xor" else None
            pend.append(Pending(case, bad[0], bad[1], dj1, q, idxs, [e1 for _, e1 in out]))
    # ---- merge_expressions
    case = dict(step="merge_expressions", defs=dj0)
    res.count(case, bucket=f"{tag}:merge_expressions")
    lib.reset()
    merged = None
    try:
        merged = lib.run_steps(["merge_expressions"], exps)
    except Exception as e:  # noqa
        res.violation(case, f"merge_expressions raised {type(e).__name__}: {e}")
    if merged is not None:
        dj1 = defs_json(merged)
        if wf:
            bad = check_property(dj0, dj1)
            if bad:
                res.violation(case, bad[0], detail=bad[1], code=dj1)
            if any(not is_ret(n) for n, _ in dj1):
                res.violation(case, "merge_expressions kept an intermediate definition", code=dj1)
        table = []
        for i, o in lib.simp_calls:
            ij, oj = bexp.to_json(i), bexp.to_json(o)
            table.append([ij, oj])
            if not expr_equiv(ij, oj):
                res.disagree(case, "sympy.simplify_logic broke the spec the theorems assume (SimpSound)", code=oj, model=ij)
        # per definition: xreplace and custom_simplify_logic
        emap = []
        if len(lib.csl_top) == len(exps):
            for (s, e), (ci, co) in zip(exps, lib.csl_top):
                reqs.append(dict(op="c04.xreplace", e=bexp.to_json(e), emap=[[k, v] for k, v in emap]))
                checks.append(("tree", dict(case, at=s.name, sub="xreplace"), len(reqs) - 1, ci, True))
                reqs.append(dict(op="c04.csl", e=bexp.to_json(ci), simp=table))
                checks.append(("csl", dict(case, at=s.name, sub="custom_simplify_logic"), len(reqs) - 1, co, True))
                if not is_ret(s.name):
                    emap.insert(0, [s.name, bexp.to_json(co)])
        else:
            res.disagree(case, "merge_expressions no longer calls custom_simplify_logic once per definition",
                         code=len(lib.csl_top), model=len(exps))
        reqs.append(dict(op="c04.merge", defs=dj0, simp=table))
        checks.append(("merge", case, len(reqs) - 1, dj1, wf))
    # ---- apply_cse
    case = dict(step="apply_cse", defs=dj0)
    res.count(case, bucket=f"{tag}:apply_cse")
    lib.reset()
    try:
        out = lib.run_steps(["apply_cse"], exps)
        dj1 = defs_json(out)
    except Exception as e:  # noqa
        res.violation(case, f"apply_cse raised {type(e).__name__}: {e}")
        out = None
    if out is not None:
        if len(lib.cse_calls) != 1:
            res.disagree(case, "apply_cse no longer makes exactly one cse call", code=len(lib.cse_calls), model=1)
        else:
            es, (repl, red) = lib.cse_calls[0]
            rj = [[s.name, bexp.to_json(e)] for s, e in repl]
            dj_red = [bexp.to_json(e) for e in red]
            spec = cse_spec(dj0, rj, dj_red)
            if spec:
                res.disagree(case, "sympy.cse broke the spec the theorems assume (CseSpec): " + spec, code=[rj, dj_red])
            reqs.append(dict(op="c04.cse", defs=dj0, repl=rj, red=dj_red, quirks=quirks))
            checks.append(("cse", case, len(reqs) - 1, dj1, True))
            bad = check_property(dj0, dj1) if wf else None
            if bad:
                pend.append(Pending(case, bad[0], bad[1], dj1, "cseHoistsOverBindings", [len(reqs) - 1], None))
    # ---- whole profiles
    for pname, prof, names in profiles:
        case = dict(profile=pname, defs=dj0)
        res.count(case, bucket=f"{tag}:profile-{pname}")
        lib.reset()
        try:
            whole = list(prof.apply(list(exps)))
        except Exception as e:  # noqa
            res.violation(case, f"{pname}.apply raised {type(e).__name__}: {e}")
            continue
        djw = defs_json(whole)
        simp_t = [[bexp.to_json(i), bexp.to_json(o)] for i, o in lib.simp_calls]
        cse_t = [[[bexp.to_json(e) for e in es], [[s.name, bexp.to_json(e)] for s, e in r[0]], [bexp.to_json(e) for e in r[1]]]
                 for es, r in lib.cse_calls]
        # stepwise, through the same step objects, one at a time
        cur = list(exps)
        blamed, unexplained = [], None
        idxs, exact = [], []
        try:
            for st in prof.steps:
                nm = st.__name__ if hasattr(st, "__name__") else type(st).__name__
                nxt = list(lib.BO.BoolOptimizerProfile([st]).apply(list(cur)))
                b = check_property(defs_json(cur), defs_json(nxt)) if wf else None
                if b:
                    blamed.append(nm)
                if nm in TRANSFORMERS and len(nxt) == len(cur) and cur is not exps:
                    # the transformer on the intermediate list of the profile run: structural tie
                    for (s0, e0), (s1, e1) in zip(cur, nxt):
                        reqs.append(dict(op="c04.expr", t=nm, e=bexp.to_json(e0), quirks=quirks))
                        checks.append(("expr", dict(case, at_step=nm, at=s0.name), len(reqs) - 1, e1, s0.name == s1.name))
                        if b:
                            idxs.append(len(reqs) - 1)
                            exact.append(e1)
                elif b and nm in TRANSFORMERS:
                    for (s0, e0), (s1, e1) in zip(cur, nxt):
                        reqs.append(dict(op="c04.expr", t=nm, e=bexp.to_json(e0), quirks=quirks))
                        idxs.append(len(reqs) - 1)
                        exact.append(e1)
                cur = nxt
        except Exception as e:  # noqa
            unexplained = f"stepwise run raised {type(e).__name__}: {e}"
        if unexplained is None and defs_json(cur) != djw:
            res.disagree(case, "BoolOptimizerProfile.apply differs from applying its steps one after the other",
                         code=djw, model=defs_json(cur))
        bad = check_property(dj0, djw) if wf else None
        if bad:
            # attributable only when every failing step inside is an or2xor step that the quirk model explains
            ok = unexplained is None and bool(blamed) and all(nm == "transform_or2xor" for nm in blamed)
            pend.append(Pending(case, bad[0], bad[1], djw, "or2xorNoArity" if ok else None, idxs if ok else [], exact))
        if wf:
            reqs.append(dict(op="c04.profile", steps=names, defs=dj0, simp=simp_t, cse=cse_t, quirks=quirks))
            checks.append(("profile", case, len(reqs) - 1, djw, bad is None))
            fb = free_syms(dj0)
            rets = sorted(set(ret_names(dj0)))
            reqs.append(dict(op="c04.tt", defs=djw, inputs=fb, rets=rets))
            checks.append(("tt", case, len(reqs) - 1, (ret_table(djw, fb, rets), free_syms(djw), ret_names(djw)), True))


def cse_spec(dj, repl, red):
    """None when (repl, red) meets CseSpec for the right-hand sides of dj"""
    es = [e for _, e in dj]
    if len(red) != len(es):
        return "length"
    if any(is_ret(n) for n, _ in repl):
        return "a generated name is a return symbol"
    syms_es = []
    for e in es:
        bexp.syms_json(e, syms_es)
    rn = [n for n, _ in repl]
    if any(v not in syms_es for v in free_syms(repl)):
        return "an extracted definition reads a new symbol"
    for e in red:
        if any(v not in syms_es and v not in rn for v in bexp.syms_json(e)):
            return "a reduced expression reads a new symbol"
    inputs = list(syms_es)
    if len(inputs) > 12:
        return None
    for k in range(2 ** len(inputs)):
        env = {n: bool((k >> i) & 1) for i, n in enumerate(inputs)}
        env2 = seq_eval(repl, env)
        for e, r in zip(es, red):
            if bexp.eval_json(e, env) != bexp.eval_json(r, env2):
                return "not equivalent"
    return None


def settle(ctx, res, reqs, checks, pend):
    replies = ctx.model(reqs) if reqs else []
    if replies is None:
        for p in pend:
            res.violation(p.case, p.what, detail=p.detail, code=p.code)
        return
    for kind, case, idx, code, flag in checks:
        rep = replies[idx]
        if "driver_error" in rep:
            res.disagree(case, "model driver error: " + str(rep["driver_error"]), code=str(code))
            continue
        if kind == "expr":
            if not flag:
                res.disagree(case, "a transformer step renamed a definition", code=str(code))
            elif not same_tree(rep["out"], code):
                res.disagree(case, "model and code differ on a transformer's output tree",
                             code=bexp.to_json(code), model=rep["out"], request=reqs[idx])
        elif kind == "tree":
            # sympy's xreplace re-makes a node only when an argument changed, the model always: compare both
            # sides after sympy's constructors (the identity on every tree sympy built itself)
            if not same_tree(rep["out"], code) and bexp.from_json(rep["out"]) != bexp.from_json(bexp.to_json(code)):
                res.disagree(case, "model and code differ on xreplace", code=bexp.to_json(code), model=rep["out"], request=reqs[idx])
        elif kind == "csl":
            if rep.get("misses", 0) != 0:
                res.disagree(case, "custom_simplify_logic calls simplify_logic on other sub-expressions than the model",
                             code=reqs[idx]["simp"], model=rep)
            elif not same_tree(rep["out"], code):
                res.disagree(case, "model and code differ on custom_simplify_logic", code=bexp.to_json(code), model=rep["out"], request=reqs[idx])
        elif kind == "merge":
            mo = rep["out"]
            if [n for n, _ in mo] != [n for n, _ in code]:
                res.disagree(case, "model and code differ on the names merge_expressions keeps", code=code, model=mo)
            else:
                dj0 = case["defs"]
                fb = free_syms(dj0)
                new = [v for v in free_syms(mo) + free_syms(code) if v not in fb]
                if not reads_ret(dj0) and new:
                    res.disagree(case, "merge_expressions: new free symbol in model or code", code=code, model=mo)
                else:
                    inputs = fb + [v for v in new if v not in fb]
                    if len(inputs) <= 12 and positional_table(mo, inputs) != positional_table(code, inputs):
                        res.disagree(case, "model and code differ (functionally) on merge_expressions", code=code, model=mo)
        elif kind == "cse":
            if rep["out"] != code:
                res.disagree(case, "model and code differ on apply_cse", code=code, model=rep["out"])
        elif kind == "profile":
            # the run of the repaired model (raw trees: the listed quirks may fire elsewhere than on sympy's trees)
            mo = rep["out_fixed"]
            dj0 = case["defs"]
            fb = free_syms(dj0)
            rets = sorted(set(ret_names(dj0)))
            if ret_names(mo) != ret_names(code):
                res.disagree(case, "model and code differ on the return symbols a profile keeps", code=code, model=mo)
            elif flag and ret_table(rep["out_fixed"], fb, rets) != ret_table(code, fb, rets):
                res.disagree(case, "model and code differ (functionally) on a whole profile", code=code, model=mo)
        elif kind == "tt":
            tt, fr, rn = code
            if rep.get("tt") != tt or rep.get("rets") != rn or sorted(rep.get("free", [])) != sorted(fr):
                res.disagree(case, "the harness's evaluator and the Lean evalDefs/freeSyms/retNames differ", code=code, model=rep)
    for p in pend:
        f = finding_for(ctx, p.quirk) if p.quirk else None
        ok = False
        if f is not None and p.req_index:
            reps = [replies[i] for i in p.req_index]
            if not any("driver_error" in r for r in reps) and any(r.get("trigger") for r in reps):
                if p.quirk == "or2xorNoArity":
                    # the quirk model gives exactly the code's trees, and the repaired model is right
                    ok = all(same_tree(r["out"], e) for r, e in zip(reps, p.exact)) and all(
                        expr_equiv(reqs[i]["e"], r["out_fixed"]) for i, r in zip(p.req_index, reps))
                else:
                    r = reps[0]
                    ok = r["out"] == p.code and not r.get("safe") and check_property(p.case["defs"], r["out_fixed"]) is None
        if ok:
            res.known(f["id"])
        else:
            res.violation(p.case, p.what, detail=p.detail, code=p.code)


def positional_table(dj, inputs):
    """value of every definition, in list order, on every assignment"""
    rows = []
    for k in range(2 ** len(inputs)):
        env = {n: bool((k >> i) & 1) for i, n in enumerate(inputs)}
        row = []
        for n, e in dj:
            env[n] = bexp.eval_json(e, env)
            row.append("1" if env[n] else "0")
        rows.append("".join(row))
    return "|".join(rows)


# ----------------------------------------------------------------------------- entry points
def shipped_profiles(ctx, lib, res):
    BO = lib.BO
    profs = []
    rep = ctx.model([dict(op="c04.tables")])
    for pname, key in (("defaultOptimizer", "default"), ("fastOptimizer", "fast")):
        prof = getattr(BO, pname)
        names = lib.profile_names(prof)
        case = dict(profile=pname, steps=names)
        res.count(case, bucket="tables")
        if rep is not None and rep[0].get(key) != names:
            res.disagree(case, "the step list extracted from source differs from the imported profile object",
                         code=names, model=rep[0].get(key))
        profs.append((pname, prof, names))
    if rep is not None and rep[0].get("disableOr") != lib.ET.DISABLE_OR:
        res.disagree(dict(table="DISABLE_OR"), "extracted DISABLE_OR differs", code=lib.ET.DISABLE_OR, model=rep[0].get("disableOr"))
    return profs


def run(ctx: Ctx) -> Result:
    res = Result("C04")
    res.rule = ("a case = one definition list through one step or one whole profile; non-trivial = every case "
                "(each runs the real code and the oracle on all assignments)")
    import sympy
    import sympy.logic.boolalg as B

    S = sympy.Symbol
    rng = ctx.rng
    with Lib() as lib:
        profiles = shipped_profiles(ctx, lib, res)
        lists = [("sys", l) for l in systematic(B, S)]
        lists += [("front:" + n, l) for n, l in front_end_lists(ctx, lib, res)]
        n_rand = 1500 if ctx.thorough else 160
        for k in range(n_rand):
            hint = 2 if k % 3 else 3
            lists.append(("rand", gen_list(rng, B, S, hint)))
        n_rule = 1200 if ctx.thorough else 150
        syms = [S(x) for x in "abcd"]
        for k in range(n_rule):
            # single return, deeper expressions, rich in rule shapes
            lists.append(("randexpr", [(S("_ret"), gen_expr(rng, B, syms[: rng.randint(2, 4)], 3 if k % 2 else 4))]))
        reqs, checks, pend = [], [], []
        for tag, exps in lists:
            process_list(ctx, lib, res, tag.split(":")[0], exps, reqs, checks, pend, profiles)
            if len(reqs) > 4000:
                settle(ctx, res, reqs, checks, pend)
                reqs, checks, pend = [], [], []
        settle(ctx, res, reqs, checks, pend)
    res.assumptions.append(
        "sympy's constructors, simplify_logic and cse are parameters of the model; their specs (Kernel.Sound, SimpSound, "
        "CseSpec) are hypotheses of the theorems and are checked on every call observed in the run")
    res.notes.append("well-formed list = no right-hand side reads a `_ret*` symbol (RetsNotRead); lists are run through each of the "
                     "7 steps alone and through defaultOptimizer / fastOptimizer")
    return res


def _run_case(lib, case):
    exps = defs_from_json(case["defs"])
    if "step" in case:
        out = lib.run_steps([case["step"]], exps)
    else:
        out = list(getattr(lib.BO, case["profile"]).apply(list(exps)))
    return defs_json(out)


def witness_fails(ctx: Ctx, f):
    w = f.get("witness") or {}
    if "defs" not in w:
        return None
    with Lib() as lib:
        try:
            out = _run_case(lib, w)
        except Exception:  # noqa
            return True
    return check_property(w["defs"], out) is not None


def replay(ctx: Ctx, payload):
    first = payload.get("first") or {}
    case = first.get("case") or {}
    if not case and payload.get("correspondence_disagreements"):
        case = payload["correspondence_disagreements"][0].get("case", {})
    print("replaying", json.dumps(case)[:2000])
    if "defs" not in case or not ("step" in case or "profile" in case):
        print("nothing to replay on the code for this payload")
        return 2
    with Lib() as lib:
        try:
            out = _run_case(lib, case)
        except Exception as e:  # noqa
            print(f"raised {type(e).__name__}: {e}")
            return 1
    print("code output:", json.dumps(out))
    bad = check_property(case["defs"], out)
    print("property:", "holds" if bad is None else f"VIOLATED - {bad[0]} {json.dumps(bad[1])}")
    return 0 if bad is None else 1
