"""C04 - boolean optimizer profiles preserve meaning.

Always-on search on the real code: definition lists (systematic rule-shaped slice, random lists with
n-ary operators / ITE / Implies / shared and re-bound intermediates, and the lists the real front end
produces for a pool of small programs) go through every single step of the shipped profiles and
through the whole profiles (real `BoolOptimizerProfile.apply`).  Oracle, independent of qlasskit and
of sympy's evaluation: the JSON form of the lists evaluated sequentially by `bexp.eval_json` on every
assignment of the free symbols: every `_ret*` symbol keeps its function, the list of bound return
symbols is unchanged, no new free symbol.
Correspondence: the same expressions / lists through the Lean model (QV.Model.Opt), compared
structurally after passing the model's raw tree through sympy's constructors; `simplify_logic` and
`cse` enter the model as the tables of calls observed on the real code, each checked against the spec
the theorems assume.
"""
from __future__ import annotations

import importlib
import itertools
import json
import os
import random
import re
import time

from . import bexp
from .common import Ctx, Result

LEVEL = "proof"

TRANSFORMERS = ["remove_ITE", "remove_Implies", "transform_or2xor", "transform_or2and", "remove_obvious_expr"]
LIST_STEPS = ["merge_expressions", "apply_cse"]
FULL_MAX = 10  # up to this many free symbols the oracle enumerates every assignment
N_SAMPLED = 160  # beyond: this many pseudo-random assignments on top of the structured ones (see rows_for)
LADDER = (1, 8, 64, 300, 600, 1200, 2500)  # sizes (operations) of bound expressions in the size-threshold slice
BIG_OPS = 700  # lists with more operations than this go through a reduced set of steps (see size_slice)


# ----------------------------------------------------------------------------- oracle (own evaluator)
def is_ret(n):
    return n == "_ret" or n.startswith("_ret.")


def defs_json(exps):
    return [[s.name, bexp.to_json(e)] for s, e in exps]


def defs_from_json(dj):
    from sympy import Symbol

    return [(Symbol(n), bexp.from_json(e, evaluate=False)) for n, e in dj]


def free_syms(dj):
    """symbols read before (re)definition, in order of first read"""
    out, bound = [], set()
    for n, e in dj:
        for v in bexp.syms_json(e):
            if v not in bound and v not in out:
                out.append(v)
        bound.add(n)
    return out


def ret_names(dj):
    return [n for n, _ in dj if is_ret(n)]


def reads_ret(dj):
    return any(is_ret(v) for _, e in dj for v in bexp.syms_json(e))


def seq_eval(dj, env):
    env = dict(env)
    for n, e in dj:
        env[n] = bexp.eval_json(e, env)
    return env


def rows_for(inputs):
    """None = every assignment (row k: input i = bit i of k); for more than FULL_MAX inputs a fixed sample of
    assignment numbers: all-false, all-true, every one-hot and one-cold row and N_SAMPLED pseudo-random rows
    (a function of the number of inputs only)"""
    n = len(inputs)
    if n <= FULL_MAX:
        return None
    rnd = random.Random(f"c04-rows-{n}")
    full = (1 << n) - 1
    rows = [0, full] + [1 << i for i in range(n)] + [full ^ (1 << i) for i in range(n)]
    rows += [rnd.getrandbits(n) for _ in range(N_SAMPLED)]
    return rows


def eval_bits(j, env, full):
    """the reference evaluation on all rows at once: a value is an integer whose bit r is the value in row r
    (same semantics as bexp.eval_json; an unbound symbol is false)"""
    t = j[0]
    if t == "sym":
        return env.get(j[1], 0)
    if t == "tt":
        return full
    if t == "ff":
        return 0
    if t == "not":
        return full ^ eval_bits(j[1], env, full)
    if t == "and":
        r = full
        for x in j[1:]:
            r &= eval_bits(x, env, full)
        return r
    if t == "or":
        r = 0
        for x in j[1:]:
            r |= eval_bits(x, env, full)
        return r
    if t == "xor":
        r = 0
        for x in j[1:]:
            r ^= eval_bits(x, env, full)
        return r
    if t == "ite":
        c = eval_bits(j[1], env, full)
        return (c & eval_bits(j[2], env, full)) | ((full ^ c) & eval_bits(j[3], env, full))
    if t == "imp":
        return (full ^ eval_bits(j[1], env, full)) | eval_bits(j[2], env, full)
    raise ValueError(t)


_MASKS = {}


def input_masks(n, rows):
    """(number of rows, [mask of input i]) for the assignment numbers `rows` (None = 0 .. 2^n - 1)"""
    key = (n, None if rows is None else tuple(rows))
    if key not in _MASKS:
        ks = list(range(2 ** n)) if rows is None else list(rows)
        _MASKS[key] = (len(ks), [sum(1 << r for r, k in enumerate(ks) if (k >> i) & 1) for i in range(n)])
    return _MASKS[key]


def seq_eval_bits(dj, inputs, rows=None):
    """(number of rows, name -> value on every row) after the sequential evaluation of the list"""
    nrows, masks = input_masks(len(inputs), rows)
    full = (1 << nrows) - 1
    env = dict(zip(inputs, masks))
    for n, e in dj:
        env[n] = eval_bits(e, env, full)
    return nrows, env


def ret_table(dj, inputs, rets, rows=None):
    """row after row (row k: input i = bit i of the assignment number), one char per symbol of `rets`"""
    nrows, env = seq_eval_bits(dj, inputs, rows)
    cols = [env.get(r, 0) for r in rets]
    out = "".join("1" if (c >> r) & 1 else "0" for r in range(nrows) for c in cols)
    if nrows <= 16:  # the two evaluators of the harness against each other (and both against Lean's, `c04.tt`)
        slow = []
        for k in (range(2 ** len(inputs)) if rows is None else rows):
            e1 = seq_eval(dj, {n: bool((k >> i) & 1) for i, n in enumerate(inputs)})
            slow.append("".join("1" if e1.get(r, False) else "0" for r in rets))
        if "".join(slow) != out:
            raise RuntimeError("the harness's two evaluators disagree on " + json.dumps(dj)[:400])
    return out


def check_property(before, after):
    """None when `after` preserves `before`; else (what, detail)"""
    fb, fa = free_syms(before), free_syms(after)
    rb, ra = ret_names(before), ret_names(after)
    if ra != rb:
        return "the list of bound return symbols changed", dict(before=rb, after=ra)
    new = [v for v in fa if v not in fb]
    if new:
        return "a free symbol was introduced", dict(new=new)
    rets = sorted(set(rb))
    rows = rows_for(fb)
    tb, ta = ret_table(before, fb, rets, rows), ret_table(after, fb, rets, rows)
    if tb != ta:
        k = next(i for i in range(len(tb)) if tb[i] != ta[i])
        row, col = divmod(k, max(1, len(rets)))
        if rows is not None:
            row = rows[row]
        env = {n: bool((row >> i) & 1) for i, n in enumerate(fb)}
        return "a return symbol changed its boolean function", dict(
            assignment=env, symbol=rets[col], before=tb[k], after=ta[k])
    return None


def ops_json(j):
    """number of operations of an expression (n-ary node = n-1, Not / ITE / Implies = 1): the harness's own measure"""
    t = j[0]
    if t in ("tt", "ff", "sym"):
        return 0
    own = len(j) - 2 if t in ("and", "or", "xor") else 1
    return max(own, 0) + sum(ops_json(x) for x in j[1:])


def expr_equiv(ej_in, ej_out):
    """(same function, no new symbols) for two expressions"""
    si, so = bexp.syms_json(ej_in), bexp.syms_json(ej_out)
    if any(v not in si for v in so):
        return False
    if len(si) <= 4:
        return bexp.truth_table(si, [ej_in]) == bexp.truth_table(si, [ej_out])
    nrows, env = seq_eval_bits([], si, rows_for(si))
    full = (1 << nrows) - 1
    return eval_bits(ej_in, env, full) == eval_bits(ej_out, env, full)


# ----------------------------------------------------------------------------- the real code, observed
class Lib:
    def __init__(self):
        self.BO = importlib.import_module("qlasskit.boolopt.bool_optimizer")
        self.ET = importlib.import_module("qlasskit.boolopt.exp_transformers")
        self.simp_calls = []
        self.cse_calls = []
        self.csl_top = []
        self._depth = 0

    def step_obj(self, name):
        if name in LIST_STEPS:
            return getattr(self.BO, name)
        return getattr(self.ET, name)()

    def profile_names(self, prof):
        return [s.__name__ if callable(s) and hasattr(s, "__name__") else type(s).__name__ for s in prof.steps]

    def __enter__(self):
        BO = self.BO
        self._orig = (BO.simplify_logic, BO.cse, BO.custom_simplify_logic)
        o_simp, o_cse, o_csl = self._orig

        def simp(e, *a, **k):
            r = o_simp(e, *a, **k)
            self.simp_calls.append((e, r))
            return r

        def cse(es, *a, **k):
            r = o_cse(es, *a, **k)
            self.cse_calls.append((list(es), r))
            return r

        def csl(e):
            self._depth += 1
            try:
                r = o_csl(e)
            finally:
                self._depth -= 1
            if self._depth == 0:
                self.csl_top.append((e, r))
            return r

        BO.simplify_logic, BO.cse, BO.custom_simplify_logic = simp, cse, csl
        return self

    def __exit__(self, *a):
        self.BO.simplify_logic, self.BO.cse, self.BO.custom_simplify_logic = self._orig

    def reset(self):
        self.simp_calls, self.cse_calls, self.csl_top = [], [], []

    def run_steps(self, names, exps):
        prof = self.BO.BoolOptimizerProfile([self.step_obj(n) for n in names])
        return list(prof.apply(list(exps)))


# ----------------------------------------------------------------------------- generators
def gen_expr(rng, B, syms, depth, nary=4):
    r = rng.random()
    if depth <= 0 or r < 0.18:
        if rng.random() < 0.04:
            return rng.choice([B.true, B.false])
        s = rng.choice(syms)
        return B.Not(s) if rng.random() < 0.3 else s
    k = rng.random()
    sub = lambda: gen_expr(rng, B, syms, depth - 1, nary)  # noqa
    if k < 0.24:
        return B.And(*[sub() for _ in range(rng.randint(2, nary))])
    if k < 0.48:
        return B.Or(*[sub() for _ in range(rng.randint(2, nary))])
    if k < 0.62:
        return B.Xor(*[sub() for _ in range(rng.randint(2, 3))])
    if k < 0.74:
        return B.Not(sub())
    if k < 0.86:
        return B.ITE(sub(), sub(), sub())
    if k < 0.93:
        return B.Implies(sub(), sub())
    # xnor-shaped: Or(And(x, y[, z]), And(~x, ~y[, ~z])) with possible damage
    n = rng.choice([2, 2, 3, 3, 4])
    xs = [sub() for _ in range(n)]
    ys = [B.Not(x) for x in xs]
    m = rng.random()
    if m < 0.2:
        ys[rng.randrange(n)] = sub()
    elif m < 0.3:
        ys = ys[:-1] + [xs[-1]]
    elif m < 0.4 and n > 2:
        ys = ys[:-1]
    return B.Or(B.And(*xs), B.And(*ys))


def gen_list(rng, B, S, size_hint):
    """random definition list whose right-hand sides never read a return symbol"""
    n_in = rng.randint(2, 5)
    inputs = [S(x) for x in "abcde"[:n_in]]
    inter_names = rng.sample(["t0", "t1", "t2", "u", "x0", "x1"], rng.randint(0, 3))
    n_ret = rng.randint(1, 3)
    ret_names_ = ["_ret"] if n_ret == 1 else [f"_ret.{i}" for i in range(n_ret)]
    if rng.random() < 0.1:
        ret_names_ = ["_ret.0.1", "_retval"][:n_ret] + ret_names_[2:]
    out = []
    readable = list(inputs)
    pending_rets = list(ret_names_)
    n_defs = len(inter_names) + rng.randint(0, 2)
    for _ in range(n_defs):
        if not inter_names:
            break
        nm = rng.choice(inter_names)
        pool = readable + ([S(rng.choice(inter_names))] if rng.random() < 0.15 else [])
        out.append((S(nm), gen_expr(rng, B, pool, rng.randint(1, size_hint))))
        if S(nm) not in readable:
            readable.append(S(nm))
        if pending_rets and rng.random() < 0.25:
            out.append((S(pending_rets.pop(0)), gen_expr(rng, B, readable, rng.randint(1, size_hint))))
    for r in pending_rets:
        out.append((S(r), gen_expr(rng, B, readable, rng.randint(1, size_hint))))
    if rng.random() < 0.08 and len(ret_names_) > 0:  # a return symbol bound twice
        out.append((S(ret_names_[0]), gen_expr(rng, B, readable, 1)))
    return out


def systematic(B, S):
    """rule-shaped lists, the same for every seed: each rule's firing and near-miss shapes"""
    a, b, c, d, t = S("a"), S("b"), S("c"), S("d"), S("t")
    N = lambda x, **k: B.Not(x, **k)  # noqa
    U = dict(evaluate=False)
    R = S("_ret")
    exprs = [
        # transform_or2xor
        B.Or(B.And(a, b), B.And(N(a), N(b))), B.Or(B.And(a, N(b)), B.And(N(a), b)),
        B.Or(B.And(a, b), B.And(N(a), b)), B.Or(B.And(a, b), B.And(N(a), N(c))),
        B.Or(B.And(a, b, c), B.And(N(a), N(b), N(c))), B.Or(B.And(a, b, c), B.And(N(a), N(b), d)),
        B.Or(B.And(a, b, c), B.And(N(a), N(b))), B.Or(B.And(a, b), B.And(N(a), N(b), c)),
        B.Or(B.And(a, b, c, d), B.And(N(a), N(b), N(c), N(d))),
        B.Or(B.And(a, b), B.And(N(a), N(b)), c), B.Or(B.And(a, b), c), B.Or(a, B.And(N(a), N(b))),
        B.Or(B.And(B.Xor(a, c), b), B.And(N(B.Xor(a, c)), N(b))),
        B.Or(B.And(B.Or(a, c), b), B.And(N(B.Or(a, c)), N(b))),
        B.Or(B.And(B.ITE(a, c, d), b), B.And(N(B.ITE(a, c, d)), N(b))),
        B.And(c, B.Or(B.And(a, b), B.And(N(a), N(b)))), N(B.Or(B.And(a, b), B.And(N(a), N(b)))),
        B.Xor(c, B.Or(B.And(a, b), B.And(N(a), N(b)))), B.ITE(c, B.Or(B.And(a, b), B.And(N(a), N(b))), d),
        B.Implies(B.Or(B.And(a, b), B.And(N(a), N(b))), c),
        B.Or(B.And(a, b), B.And(N(a), N(b)), evaluate=False), B.Or(B.And(N(a), N(b)), B.And(a, b), evaluate=False),
        B.Or(B.And(b, a, **U), B.And(N(a), N(b), **U), **U),
        # transform_or2and
        B.Or(a, b), B.Or(a, b, c), B.Or(a, b, c, d), B.Or(a, B.Or(b, c, d, **U), **U), B.Or(a, B.And(b, B.Or(b, c, d))),
        B.And(a, B.Or(b, c, N(d))), N(B.Or(a, b, c)), B.Xor(a, B.Or(b, c, d)), B.ITE(B.Or(a, b, c), c, d),
        B.Or(B.Or(a, b, c, **U), d, **U), B.Or(B.ITE(a, b, c), B.Implies(c, d), N(a)),
        # remove_obvious_expr (only unevaluated trees can show these shapes)
        B.And(a, N(a), **U), B.And(N(a), a, **U), B.Or(a, N(a), **U), B.Or(N(a), a, **U),
        B.And(a, N(b), **U), B.Or(a, N(b), **U), B.And(a, N(a), b, **U), B.Or(a, N(a), b, **U),
        B.And(N(a), N(a), **U), B.And(a, a, **U), N(N(a, **U), **U), N(N(B.And(a, b), **U), **U),
        N(B.And(a, N(a), **U), **U), B.Xor(B.And(a, N(a), **U), b, **U), B.ITE(c, B.Or(a, N(a), **U), b, **U),
        B.Implies(B.And(a, N(a), **U), b, **U), B.And(B.And(a, b), N(B.And(a, b)), **U),
        # remove_ITE / remove_Implies
        B.ITE(a, b, c), B.ITE(a, b, N(b)), B.ITE(N(a), b, c), B.ITE(B.ITE(a, b, c), c, d), B.ITE(a, B.ITE(b, c, d), d),
        B.ITE(a, B.Implies(b, c), d), B.Implies(a, b), B.Implies(B.Implies(a, b), c), B.Implies(a, B.ITE(b, c, d)),
        B.And(a, B.ITE(b, c, d)), N(B.ITE(a, b, c)), B.Xor(a, B.ITE(b, c, d), B.Implies(c, d)), B.Or(a, B.Implies(b, c), d),
        B.ITE(B.Xor(a, b), B.Or(a, c, d), B.And(b, c)), B.true, B.false, a, N(a),
    ]
    # collapse shapes: an n-ary node with two operands that differ syntactically but that one rewrite
    # step maps to the SAME expression (a visitor that de-duplicates rebuilt operands is wrong for Xor)
    pairs = [
        (B.ITE(c, a, b), B.Or(B.And(c, a), B.And(N(c), b))), (B.ITE(c, a, b), B.Or(B.And(a, c), B.And(b, N(c)))),
        (B.Implies(a, b), B.Or(N(a), b)), (B.Implies(a, b), B.Or(b, N(a))),
        (B.Or(a, b, c), N(B.And(N(a), N(b), N(c)))), (B.Or(a, b, c, d), N(B.And(N(a), N(b), N(c), N(d)))),
        (B.Or(B.And(a, b), B.And(N(a), N(b))), N(B.Xor(a, b))), (B.Or(B.And(a, N(b)), B.And(N(a), b)), B.Xor(a, b)),
        (B.And(a, N(a), **U), B.false), (B.Or(a, N(a), **U), B.true),
    ]
    # nested xnor patterns: both operands of an outer (x&y)|(~x&~y) are themselves patterns the rule rewrites
    def xn(x, y):
        return B.Or(B.And(x, y), B.And(N(x), N(y)))

    def xo(x, y):
        return B.Or(B.And(x, N(y)), B.And(N(x), y))
    exprs += [xn(xn(a, b), xn(c, d)), xn(xn(a, b), xo(c, d)), xn(xo(a, b), xo(c, d)), xo(xn(a, b), xn(c, d)),
              xn(xn(a, b), c), xn(N(a), xn(b, c)), xn(xn(a, b), xn(a, c)), xn(xn(xn(a, b), c), d),
              B.Xor(xn(xn(a, b), xn(c, d)), t), B.And(xn(xn(a, b), xn(c, d)), t)]
    for x, y in pairs:
        for op in (B.Xor, B.And, B.Or):
            exprs += [op(x, y), op(y, x, **U), op(d, x, y), N(op(x, y, **U), **U)]
        exprs += [B.Xor(x, y, d), B.ITE(d, B.Xor(x, y), a), B.Implies(B.Xor(x, y), d)]
    lists = [[(R, e)] for e in exprs]
    # list-shaped: shared, re-bound, read-before-bound, cse-relevant
    lists += [
        [(t, a & b), (R, B.Xor(t, c))],
        [(t, a & b), (S("_ret.0"), (B.Xor(t, c)) & d), (S("_ret.1"), (B.Xor(t, c)) | d)],
        [(t, a & b), (S("_ret.0"), B.Xor(t, c)), (t, a | b), (S("_ret.1"), B.Xor(t, c))],
        [(S("u"), t | a), (t, b & c), (R, B.Xor(S("u"), t))],
        [(S("x0"), B.Xor(a, b) & c), (R, B.Xor(a, b) | c)],
        [(S("x0"), B.Xor(a, b) & c), (S("_ret.0"), B.Xor(a, b) | c), (S("_ret.1"), S("x0") | a)],
        [(S("_ret.0"), B.Xor(a, b) & c), (S("_ret.1"), B.Xor(a, b) | c)],
        [(S("_ret.0"), (a & b & c) | d), (S("_ret.1"), (a & b & c) ^ d), (S("_ret.2"), N(a & b & c))],
        [(t, B.ITE(a, b, c)), (S("u"), B.Implies(t, d)), (R, B.Or(t, S("u"), a))],
        [(t, a), (t, N(t)), (t, N(t) & b), (R, t)],
        [(R, a & b), (R, a | b)],
        [(S("_retx"), a & b), (R, a ^ b)],
        [(t, B.Or(B.And(a, b, c), B.And(N(a), N(b), N(c)))), (R, t ^ d)],
        [(t, a & b), (R, B.Or(B.And(t, c), B.And(N(a), N(b), N(c))))],
        [(t, a & b), (S("u"), t | c), (S("v"), B.Xor(t, S("u"))), (R, B.ITE(S("v"), t, S("u")))],
    ]
    return lists


# ----------------------------------------------------------------------------- depth of return-bit names
# names that look like a return bit and are none (the oracle's `is_ret`: "_ret" or prefix "_ret."): ordinary
# identifiers, bound as intermediates (often twice) in the lists below
LOOKALIKES = ("_retx", "_ret_1", "_ret1", "_ret0.1", "x._ret.0", "ret.0", "__ret", "_re", "_RET.0", "_rett.0.0.0.0",
              "_ret_.0.0.0.0.0")
RET_STYLES = {  # index at position i of a return name, by style
    "zeros": lambda i: 0, "ones": lambda i: 1, "mixed": lambda i: (0, 1, 1, 0, 2, 1, 0, 3)[i % 8],
    "multi": lambda i: (10, 0, 12, 1, 100, 11, 7, 255)[i % 8],
}
MAX_RET_DEPTH = 6


def ret_name(idx):
    return "_ret" + "".join(f".{i}" for i in idx)


def ret_depth(n):
    """number of indices of a return name"""
    return n.count(".")


def depth_lists(B, S):
    """return names with 0 .. MAX_RET_DEPTH indices (single- and multi-digit), alone, all together and as the
    complete name sets of nested container types, mixed with look-alike intermediates that are bound twice:
    (family, list), the same for every seed"""
    a, b, c, d, t = S("a"), S("b"), S("c"), S("d"), S("t")
    out = []
    k = 0
    # one depth at a time, every index style; a sibling return of the same depth after a re-binding
    for depth in range(MAX_RET_DEPTH + 1):
        for style, f in RET_STYLES.items():
            if depth == 0 and style != "zeros":
                continue
            idx = [f(i) for i in range(depth)]
            la = S(LOOKALIKES[k % len(LOOKALIKES)])
            k += 1
            l = [(t, B.And(a, b)), (la, B.Or(t, c)), (S(ret_name(idx)), B.Xor(t, c, B.And(la, a))), (t, B.Or(a, c)),
                 (la, B.And(t, B.Not(b)))]
            if depth:
                l.append((S(ret_name(idx[:-1] + [idx[-1] + 1])), B.Xor(la, a)))
                if depth > 1:  # a shallower return in the same list
                    l.append((S(ret_name(idx[:-2] + [idx[-2] + 1])), B.Or(la, B.And(t, c))))
            else:  # the only return last
                l = [l[0], l[1], l[3], l[4], (S("_ret"), B.Xor(t, c, B.And(la, a)))]
            out.append(("depth1", l))
    # every depth in one list (ascending, descending, interleaved with every look-alike, each bound twice)
    for order in ("up", "down"):
        depths = list(range(1, MAX_RET_DEPTH + 1))
        if order == "down":
            depths.reverse()
        l = [(t, B.Xor(a, b))]
        for i, depth in enumerate(depths):
            la = S(LOOKALIKES[(i + (0 if order == "up" else 5)) % len(LOOKALIKES)])
            f = RET_STYLES["mixed" if order == "up" else "multi"]
            l.append((la, B.And(t, [a, b, c, d][i % 4]) if i % 2 else B.Or(t, [a, b, c, d][i % 4])))
            l.append((S(ret_name([f(j) for j in range(depth)])), B.Xor(la, [b, c, d, a][i % 4])))
            l.append((la, B.Xor(la, t, [c, d, a, b][i % 4])))
            l.append((t, B.And(la, B.Not([d, a, b, c][i % 4]))))
        out.append(("depthmix", l))
    # every look-alike once: bound, read by a deep return, bound again, read by its deep sibling and a shallow one
    for i, nm in enumerate(LOOKALIKES):
        la = S(nm)
        deep = [0] * (4 + i % 3)
        out.append(("lookalike", [(la, B.And(a, b)), (S(ret_name(deep)), B.Xor(la, c)), (la, B.Or(a, b)),
                                  (S(ret_name(deep[:-1] + [1])), B.And(la, c)), (S("_ret.1"), B.Not(la))]))
    # complete name sets, as the front end lays them out
    fs = [B.Xor(t, a), B.And(t, c), B.Or(t, d), B.Xor(a, c, d), B.And(a, B.Not(d)), B.Not(t), B.Or(B.Not(a), c), B.Xor(t, c, d)]

    def named(names):
        return [(t, B.And(a, b))] + [(S(n), fs[i % len(fs)] if i % 5 else B.Xor(fs[i % len(fs)], b)) for i, n in enumerate(names)]

    cube = [ret_name([0, i, j, q]) for i in (0, 1) for j in (0, 1) for q in (0, 1)]
    out.append(("container", named(cube + ["_ret.1"])))  # Tuple[Qmatrix[Qint2,2,2], bool]
    out.append(("container", named([ret_name([0, 0, i, j]) for i in (0, 1) for j in (0, 1)] + ["_ret.0.1", "_ret.1"])))
    out.append(("container", named([ret_name([i]) for i in range(13)])))  # a 13-tuple of bools
    out.append(("container", named([ret_name([i, j]) for i in (0, 9, 10, 11) for j in (0, 1)])))  # Qlist[Qint2, 12]
    out.append(("container", named([ret_name([1, 0, 10, j]) for j in (9, 10, 11)] + [ret_name([1, 0, 0, 0, 0, j]) for j in (0, 1)]
                                   + [ret_name([1, 0, 0, 0, 0, 0, j]) for j in (0, 1)] + ["_ret.0"])))
    return out


DEPTH_PROGRAMS = [
    # (name, source): return types whose bits have 0 .. 6 indices; the deep ones nest containers
    ("d0", "def d0(a: Qint2, b: bool) -> bool:\n    c = a + 1\n    return (c > a) != b"),
    ("d1", "def d1(a: Qint2, b: bool) -> Qint2:\n    c = a + 1\n    return c if b else a"),
    ("d2", "def d2(a: Qint2, b: bool) -> Qlist[Qint2, 2]:\n    c = a + 1\n    return [c, a]"),
    ("d3", "def d3(a: Qint2, b: bool) -> Qmatrix[Qint2, 2, 2]:\n    c = a + 1\n    return [[c, a], [a, c]]"),
    ("d4m", "def d4m(a: Qint2, b: bool) -> Tuple[Qmatrix[Qint2, 2, 2], bool]:\n    c = a + 1\n    return ([[c, a], [a, c]], not b)"),
    ("d4l", "def d4l(a: Qint2, b: bool) -> Tuple[Tuple[Qlist[Qint2, 2], bool], bool]:\n    c = a + 1\n    return (([c, a], b), not b)"),
    ("d5", "def d5(a: Qint2, b: bool) -> Tuple[Tuple[Tuple[Qlist[Qint2, 2], bool], bool], bool]:\n"
           "    c = a + 1\n    return ((([a, c], b), not b), b and a[0])"),
    ("d5w", "def d5w(a: Qint2, b: bool) -> Tuple[Tuple[Qmatrix[Qint2, 2, 2], bool], Tuple[Tuple[Qlist[Qint2, 2], bool], bool]]:\n"
            "    c = a + 1\n    return (([[a, a], [c, a]], b), (([a, c], b), not b))"),
    ("d6", "def d6(a: Qint2, b: bool) -> Tuple[Tuple[Tuple[Tuple[Qlist[Qint2, 2], bool], bool], bool], bool]:\n"
           "    c = a + 1\n    return (((([c, a], b), not b), a[1]), b)"),
    ("d1w", "def d1w(a: bool, b: bool, c: bool) -> Tuple[bool, bool, bool, bool, bool, bool, bool, bool, bool, bool, bool, bool]:\n"
            "    x = a and b\n    return (a, b, c, x, not a, b != c, c, x or c, a, b, x and c, x != c)"),
    ("d2w", "def d2w(a: Qint2, b: bool) -> Qlist[Qint2, 11]:\n    c = a + 1\n    return [a, c, a, a, c, a, a, a, a, c, a + 2]"),
]


def _rand_ret_type(rng, depth):
    """(annotation, expression) of a random nested return type over the variables a: Qint2, c = a + 1, b: bool"""
    k = rng.random()
    if depth <= 0 or k < 0.2:
        if rng.random() < 0.5:
            return "bool", rng.choice(["b", "not b", "a[0]", "b and a[1]", "a[0] != b", "c[1]"])
        return "Qint2", rng.choice(["a", "c", "a + 2", "c + a"])
    if k < 0.35:
        return "Qlist[Qint2, 2]", "[" + ", ".join(rng.choice(["a", "c"]) for _ in range(2)) + "]"
    if k < 0.45:
        return "Qmatrix[Qint2, 2, 2]", "[[a, c], [" + rng.choice(["c, a", "a, a", "c, c"]) + "]]"
    parts = [_rand_ret_type(rng, depth - 1) for _ in range(rng.randint(2, 3))]
    return "Tuple[" + ", ".join(p[0] for p in parts) + "]", "(" + ", ".join(p[1] for p in parts) + ")"


def random_depth_programs(rng, thorough):
    out = []
    for k in range(10 if thorough else 3):
        ann, ex = _rand_ret_type(rng, rng.randint(2, 5))
        if not ann.startswith("Tuple"):
            ann, ex = f"Tuple[{ann}, bool]", f"({ex}, not b)"
        out.append((f"rd{k}", f"def rd{k}(a: Qint2, b: bool) -> {ann}:\n    c = a + 1\n    return {ex}"))
    return out


def random_depth_lists(rng, B, S, thorough):
    """random return names (0 .. 8 indices, values from single digits to three digits), random look-alike
    intermediates (bound up to three times), random small right-hand sides"""
    out = []
    vals = (0, 0, 1, 1, 2, 3, 9, 10, 11, 12, 99, 100, 255)
    for _ in range(60 if thorough else 10):
        inputs = [S(x) for x in "abcd"[: rng.randint(2, 4)]]
        inter = [S(x) for x in rng.sample(LOOKALIKES + ("t", "u"), rng.randint(1, 3))]
        names = []
        while len(names) < rng.randint(1, 6):
            n = ret_name([rng.choice(vals) for _ in range(rng.randint(0, 8))])
            if n not in names:
                names.append(n)
        readable, l = list(inputs), []
        for n in names:
            for _ in range(rng.randint(0, 2)):
                nm = rng.choice(inter)
                l.append((nm, gen_expr(rng, B, readable, 2)))
                if nm not in readable:
                    readable.append(nm)
            l.append((S(n), gen_expr(rng, B, readable, rng.randint(1, 2))))
        out.append(("rdepth", l))
    return out


def describe_depth(lists):
    """the input distribution of the return-name depth slice"""
    out = {}
    for fam, exps in lists:
        d = out.setdefault(fam, dict(lists=0, return_symbols=0, indices_of_a_return_name={}, multi_digit_index=0,
                                     lookalike_intermediates={}, lookalikes_bound_more_than_once=0, definitions=0))
        names = [s.name for s, _ in exps]
        d["lists"] += 1
        d["definitions"] += len(names)
        for n in names:
            if is_ret(n):
                d["return_symbols"] += 1
                k = str(ret_depth(n))
                d["indices_of_a_return_name"][k] = d["indices_of_a_return_name"].get(k, 0) + 1
                d["multi_digit_index"] += any(len(p) > 1 for p in n.split(".")[1:])
        for n in sorted(set(names)):
            if not is_ret(n) and ("ret" in n.lower() or n == "_re"):
                d["lookalike_intermediates"][n] = d["lookalike_intermediates"].get(n, 0) + 1
                d["lookalikes_bound_more_than_once"] += names.count(n) > 1
    for d in out.values():
        d["indices_of_a_return_name"] = dict(sorted(d["indices_of_a_return_name"].items(), key=lambda kv: int(kv[0])))
    return out


# ----------------------------------------------------------------------------- Or of two Ands of different arities
XOR_ONLY = frozenset(["transform_or2xor", "defaultOptimizer", "fastOptimizer"])
ARITY_PAIRS = ((2, 3), (2, 4), (3, 4))
ARITY_PAIRS_THOROUGH = ((2, 5), (3, 5), (4, 5))


def _pols(n):
    return list(itertools.product((False, True), repeat=n))


def arity_lists(B, S, thorough):
    """`Or(And(short), And(complements of short + extra literals))` for the arity pairs (m, n): which of the first n
    variable names are the extra ones (every subset: sympy sorts the literals, so this decides where the
    complementary literals stand in the longer And), every polarity of every literal; `near`: one of the
    complements not complemented; `uneval`: the same trees built without evaluation, the extra literals at every
    position and the Or in both orders; `ctx`: under Not / And / Xor / ITE with one more variable.
    (family, list, info), the same for every seed"""
    N = B.Not
    R = S("_ret")
    out = []

    def lit(v, neg):
        return N(v) if neg else v

    pairs = ARITY_PAIRS + (ARITY_PAIRS_THOROUGH if thorough else ())
    for m, n in pairs:
        vs = [S(x) for x in "abcde"[:n]]
        five = n == 5
        for extra_pos in itertools.combinations(range(n), n - m):
            xs = [v for i, v in enumerate(vs) if i not in extra_pos]
            ys = [vs[i] for i in extra_pos]
            for ip, sp in enumerate(_pols(m)):
                if five and ip not in (0, 2 ** m - 1, 1, 2 ** m - 2):
                    continue
                short = [lit(x, p) for x, p in zip(xs, sp)]
                comp = [lit(x, not p) for x, p in zip(xs, sp)]
                for ep in _pols(n - m):
                    if five and len(set(ep)) > 1 and ip not in (0, 2 ** m - 1):
                        continue
                    ext = [lit(y, p) for y, p in zip(ys, ep)]
                    info = dict(arity=f"{m}v{n}", extra_at="".join(map(str, extra_pos)), variables=n)
                    out.append(("arity", [(R, B.Or(B.And(*short), B.And(*(comp + ext))))], dict(info, kind="evaluated")))
                    if ip in (0, 2 ** m - 1) or thorough:
                        for j in range(m if thorough else 1):
                            jj = (j + len(out)) % m
                            near = list(comp)
                            near[jj] = short[jj]
                            out.append(("arity", [(R, B.Or(B.And(*short), B.And(*(near + ext))))], dict(info, kind="near-miss")))
                    # built without evaluation: the position of the extra literals and the order of the Or as given
                    if five or (n - m == 2 and ep in ((False, True),) and not thorough) or (m == 3 and sp.count(True) == 2 and not thorough):
                        continue
                    long_args = []
                    ci, ei = iter(comp), iter(ext)
                    for i in range(n):
                        long_args.append(next(ei) if i in extra_pos else next(ci))
                    s_and = B.And(*short, evaluate=False)
                    l_and = B.And(*long_args, evaluate=False)
                    for first_short in (True, False):
                        e = B.Or(s_and, l_and, evaluate=False) if first_short else B.Or(l_and, s_and, evaluate=False)
                        out.append(("arity", [(R, e)], dict(info, kind="unevaluated", order="short-first" if first_short else "long-first")))
    # in context, through intermediates, with a fifth variable
    a, b, c, d, e5, t, u = (S(x) for x in ("a", "b", "c", "d", "e", "t", "u"))
    for m, n in ARITY_PAIRS:
        vs = [a, b, c, d][:n]
        for neg_short in (False, True):
            for neg_ext in (False, True):
                short = [lit(x, neg_short) for x in vs[:m]]
                long_ = [lit(x, not neg_short) for x in vs[:m]] + [lit(y, neg_ext) for y in vs[m:]]
                p = B.Or(B.And(*short), B.And(*long_))
                info = dict(arity=f"{m}v{n}", extra_at="".join(map(str, range(m, n))), variables=5, kind="context")
                out.append(("arity", [(R, N(p))], info))
                out.append(("arity", [(R, B.Xor(p, e5))], info))
                out.append(("arity", [(R, B.And(p, e5))], info))
                out.append(("arity", [(R, B.ITE(e5, p, vs[0]))], info))
                out.append(("arity", [(t, B.And(*short)), (u, B.And(*long_)), (R, B.Or(t, u))], info))
                out.append(("arity", [(t, B.And(*long_[m:])), (S("_ret.0"), B.Or(B.And(*short), B.And(t, *long_[:m]))),
                                      (S("_ret.1"), B.Xor(t, e5))], info))
    return out


ARITY_PROGRAMS = [
    ("x23n", "def x23n(a: bool, b: bool, c: bool) -> bool:\n    return (a and b) or (not a and not b and not c)"),
    ("x23p", "def x23p(a: bool, b: bool, c: bool) -> bool:\n    return (not a and not b) or (a and b and not c)"),
    ("x23m", "def x23m(a: bool, b: bool, c: bool) -> bool:\n    return (b and c) or (not a and not b and not c)"),
    ("x23x", "def x23x(a: bool, b: bool, c: bool) -> bool:\n    return (a and not b) or (not a and b and c)"),
    ("x24", "def x24(a: bool, b: bool, c: bool, d: bool) -> bool:\n    return (a and b) or (not a and not b and not c and not d)"),
    ("x24t", "def x24t(a: bool, b: bool, c: bool, d: bool) -> bool:\n    x = not c and not d\n    return (a and b) or (not a and not b and x)"),
    ("x34", "def x34(a: bool, b: bool, c: bool, d: bool) -> bool:\n    return (a and b and c) or (not a and not b and not c and not d)"),
    ("x34q", "def x34q(a: Qint2, b: Qint2) -> bool:\n    return (a[0] and a[1] and b[0]) or (not a[0] and not a[1] and not b[0] and b[1])"),
    ("x25", "def x25(a: bool, b: bool, c: bool, d: bool, e: bool) -> Tuple[bool, bool]:\n"
            "    return ((a and b) or (not a and not b and not c and not d and not e), (d and e) or (not d and not e and a))"),
]


def random_arity_lists(rng, B, S, thorough):
    """random arity pairs 2 <= m < n <= 5 over a random choice and order of the names a .. e, random polarities, a
    random number of damaged complements (mostly none), the pattern at a random place of a small context"""
    out = []
    R = S("_ret")
    for _ in range(150 if thorough else 24):
        n = rng.randint(3, 5)
        m = rng.randint(2, n - 1)
        vs = [S(x) for x in rng.sample("abcde", n)]
        short = [B.Not(x) if rng.random() < 0.5 else x for x in vs[:m]]
        comp = [B.Not(x) for x in short]
        dmg = 0
        if rng.random() < 0.25:
            dmg = 1
            comp[rng.randrange(m)] = rng.choice(short + vs[m:])
        ext = [B.Not(y) if rng.random() < 0.6 else y for y in vs[m:]]
        ev = rng.random() < 0.6
        args = comp + ext
        if not ev:
            rng.shuffle(args)
        kw = {} if ev else dict(evaluate=False)
        ands = [B.And(*short, **kw), B.And(*args, **kw)]
        if rng.random() < 0.5:
            ands.reverse()
        p = B.Or(*ands, **kw)
        w = S(rng.choice("abcde"))
        ctxk = rng.randrange(5)
        e = [p, B.Not(p), B.Xor(p, w), B.And(p, w), B.ITE(w, p, B.Not(w))][ctxk]
        out.append(("rarity", [(R, e)], dict(arity=f"{m}v{n}", variables=n, kind=("evaluated" if ev else "unevaluated") + ("+damaged" if dmg else "")
                                             + ("+context" if ctxk else ""))))
    return out


def describe_arity(lists):
    out = {}
    for fam, _exps, info in lists:
        d = out.setdefault(fam, dict(lists=0, arity_pair={}, kind={}, variables={}, extra_literals_at={}))
        d["lists"] += 1
        for k, key in (("arity_pair", "arity"), ("kind", "kind"), ("variables", "variables"), ("extra_literals_at", "extra_at")):
            if key in info:
                v = str(info[key])
                d[k][v] = d[k].get(v, 0) + 1
    for d in out.values():
        for k in ("arity_pair", "kind", "variables", "extra_literals_at"):
            d[k] = dict(sorted(d[k].items()))
    return out


# ----------------------------------------------------------------------------- size thresholds x re-binding
def _lit(rnd, B, leaves):
    x = rnd.choice(leaves)
    return B.Not(x) if rnd.random() < 0.25 else x


def _gadget(rnd, B, leaves):
    """a small rule-shaped sub-expression (ITE / Implies / xnor pattern / n-ary Or): what the transformers rewrite"""
    l = lambda: _lit(rnd, B, leaves)  # noqa
    k = rnd.randrange(6)
    if k == 0:
        return B.ITE(l(), l(), l())
    if k == 1:
        return B.Implies(l(), l())
    if k == 2:
        x, y = l(), l()
        return B.Or(B.And(x, y), B.And(B.Not(x), B.Not(y)))
    if k == 3:
        return B.Or(l(), l(), l())
    if k == 4:
        x, y, z = l(), l(), l()
        return B.Or(B.And(x, y, z), B.And(B.Not(x), B.Not(y), B.Not(z)))
    return B.Xor(l(), l(), l())


def _tree(rnd, B, leaves, n, rich):
    if n <= 0:
        return _lit(rnd, B, leaves)
    if rich and n <= 6 and rnd.random() < 0.7:
        return _gadget(rnd, B, leaves)
    op = rnd.choice((B.Xor, B.And, B.Or))
    left = (n - 1) // 2
    return op(_tree(rnd, B, leaves, left, rich), _tree(rnd, B, leaves, n - 1 - left, rich))


def sized_expr(key, B, leaves, target, rich=False):
    """a balanced And/Or/Xor tree (depth ~ log2 size; `rich`: rule-shaped gadgets at the leaves), a function of
    `key` only, of at least `target` operations after sympy's constructors - or the biggest of a dozen attempts
    when the leaves do not allow that (one or two variables with `rich`: most gadgets collapse)"""
    n, best, best_ops = target, None, -1
    for attempt in range(12):
        e = _tree(random.Random(f"c04-{key}-{attempt}"), B, leaves, n, rich)
        got = ops_json(bexp.to_json(e))
        if got > best_ops:
            best, best_ops = e, got
        if got >= target:
            return e
        n = min(max(n + 1, n * target // max(got, 1) + 1), 4 * target + 8)
    return best


def rebind_list(B, S, key, sizes, nvars=6, selfref=(), rich=False, reader=0):
    """`t` bound len(sizes) times to expressions of these sizes; a return reads `t` after every binding, the last
    one through a second intermediate (all readers share the sub-expression `t & <first variable>`, so a common-
    subexpression step sees the same text before and after a re-binding); bindings listed in `selfref` also read
    the previous value of `t`; `reader`: the size of the last reader (0 = tiny)"""
    vs = [S(x) for x in "abcdefghijklmnop"[:nvars]]
    t, u = S("t"), S("u")
    out = []
    for i, sz in enumerate(sizes):
        e = sized_expr(f"{key}-{i}", B, vs, sz, rich)
        if i in selfref and i > 0:
            e = B.Xor(t, e)
        out.append((t, e))
        if i == len(sizes) - 1:
            out.append((u, B.Or(B.And(t, vs[0]), vs[-1])))
            last = B.Xor(u, vs[1 % nvars])
            if reader:
                last = B.Xor(last, B.And(t, sized_expr(f"{key}-reader", B, vs, reader, rich)))
            out.append((S(f"_ret.{i}"), last))
        else:
            out.append((S(f"_ret.{i}"), B.Xor(B.And(t, vs[0]), vs[(i + 1) % nvars])))
    return out


def accumulate_list(B, S, key, k, nvars=4):
    """`t` bound k+1 times, every binding reads the previous value twice: each definition is tiny, the inlined
    expression doubles with every binding (about 3 * 2^k operations)"""
    rnd = random.Random(f"c04-acc-{key}")
    vs = [S(x) for x in "abcdefgh"[:nvars]]
    t = S("t")
    out = [(t, _lit(rnd, B, vs))]
    for i in range(k):
        x, y = _lit(rnd, B, vs), _lit(rnd, B, vs)
        e = [B.And(B.Xor(t, x), B.Or(t, y)), B.Xor(B.And(t, x), B.Or(t, y)), B.Or(B.And(t, x), B.Xor(t, y))][rnd.randrange(3)]
        out.append((t, e))
        if i + 1 == k // 2 and k >= 2:
            out.append((S("_ret.0"), B.Xor(t, _lit(rnd, B, vs))))
    out.append((S("_ret.1"), B.Xor(t, _lit(rnd, B, vs))))
    return out


def many_defs_list(B, S, key, n, mode, chain=12, nvars=5):
    """exactly n definitions.  `distinct`: n-1 intermediates with names of their own in chains of `chain`
    definitions (each reads its predecessor), one return that reads every chain end.  `pool`: four names bound
    again and again (a chain re-binds one name, reading its previous value, and ends in a return of its own that
    also reads the name the chain before it used)"""
    rnd = random.Random(f"c04-nd-{key}")
    vs = [S(x) for x in "abcdefgh"[:nvars]]
    lit = lambda: _lit(rnd, B, vs)  # noqa

    def first():
        return rnd.choice((B.And, B.Xor, B.Or))(lit(), lit())

    def step(prev):
        k = rnd.random()
        if k < 0.3:
            return B.And(prev, lit())
        if k < 0.6:
            return B.Xor(prev, lit())
        if k < 0.86:
            return B.Or(prev, lit())
        if k < 0.93:
            return B.ITE(lit(), prev, lit())
        return B.Implies(prev, lit())

    out = []
    if mode == "distinct":
        ends, prev = [], None
        for i in range(n - 1):
            nm = S(f"t{i}")
            if i % chain == 0:
                if prev is not None:
                    ends.append(prev)
                e = first()
            else:
                e = step(prev)
            out.append((nm, e))
            prev = nm
        if prev is not None:
            ends.append(prev)
        out.append((S("_ret"), B.Xor(*ends) if ends else first()))
        return out
    pool = [S(x) for x in ("t", "u", "v", "w")]
    c = 0
    while len(out) < n:
        nm = pool[c % 4]
        length = min(chain, n - len(out))
        if length >= 2:
            out.append((nm, first()))
            for _ in range(length - 2):
                out.append((nm, step(nm)))
            other = pool[(c - 1) % 4] if c > 0 else lit()
            out.append((S(f"_ret.{c}"), B.Xor(nm, other)))
        else:
            out.append((S(f"_ret.{c}"), B.Xor(pool[(c - 1) % 4], lit()) if c > 0 else first()))
        c += 1
    return out


def nvars_list(B, S, key, nv, big=0):
    """a name bound twice to mixes of all nv variables (the second binding of `big` operations when given), a
    reader after each"""
    rnd = random.Random(f"c04-nv-{key}-{nv}")
    vs = [S(f"v{i}") for i in range(nv)]

    def mix(order):
        e = order[0]
        for x in order[1:]:
            e = rnd.choice((B.Xor, B.And, B.Or, B.Xor))(e, B.Not(x) if rnd.random() < 0.25 else x)
        return e

    t, u = S("t"), S("u")
    e2 = sized_expr(f"nv-{key}-{nv}", B, vs, big) if big else mix(vs[::-1])
    if nv % 2:
        e2 = B.Xor(t, e2)
    return [(t, mix(vs)), (S("_ret.0"), B.Xor(t, vs[0])), (t, e2), (u, B.Or(t, B.Not(vs[-1]))),
            (S("_ret.1"), B.Xor(u, vs[nv // 2]))]


# front-end right-hand sides by width, with the size of the comparison they translate to (operations, measured)
FE_SIZED = {
    2: [("a[0] and b[0]", 1), ("(a * a) > b", 8), ("(a * b) >= (b * a + 1)", 96)],
    3: [("a > b", 13), ("(a - b) > (b + a)", 68), ("(a * b + a) > b", 266), ("(a * a) > (b * b)", 578),
        ("(a * b) > (b * b + a)", 1197)],
    4: [("a > b", 21), ("(a + b + a + b) > a", 240), ("(a * b) > (a + b)", 1069), ("(a * b + a) > b", 2159)],
}
FE_SHAPES = {
    # the variable c is assigned two or three times; the rewriter's temporaries (__c) are re-bound with it
    "2-read": "    c = {0}\n    c = c != ({1})\n    return c",
    "2-over": "    c = {0}\n    d = c\n    c = {1}\n    return c != d",
    "3-last": "    c = {0}\n    c = not c\n    c = c != ({1})\n    return c",
    "3-mid": "    c = {0}\n    c = c != ({1})\n    c = not c\n    return c",
}


def fe_program(name, w, shape, e1, e2):
    return f"def {name}(a: Qint[{w}], b: Qint[{w}]) -> bool:\n" + FE_SHAPES[shape].format(e1, e2)


def size_programs(thorough):
    """front-end programs of the systematic size slice: (name, source)"""
    out = []
    for w, es in FE_SIZED.items():
        for i, (e1, _) in enumerate(es):
            for j, (e2, _) in enumerate(es):
                if not thorough and (w == 4 and (i, j) not in ((0, 2), (2, 1), (0, 3))
                                     or w == 3 and not (abs(i - j) <= 1 or abs(i - j) == len(es) - 1)):
                    continue
                out.append((f"sz{w}_{i}_{j}", fe_program(f"sz{w}_{i}_{j}", w, "2-read" if (i + j) % 2 == 0 else "2-over", e1, e2)))
        for j, (e2, _) in enumerate(es):
            if w == 4 and not thorough and j != 2:
                continue
            for shape in ("3-last", "3-mid"):
                nm = f"sz{w}_t{j}_{shape[2:]}"
                out.append((nm, fe_program(nm, w, shape, "a > b", e2)))
    return out


ALL_STEPS = None
LIST_ONLY = frozenset(["merge_expressions", "apply_cse", "defaultOptimizer"])


_LIST_OPS = {}


def list_ops(exps):
    """operations of all right-hand sides of a list (remembered per list object)"""
    k = id(exps)
    if k not in _LIST_OPS or _LIST_OPS[k][0] is not exps:
        _LIST_OPS[k] = (exps, sum(ops_json(bexp.to_json(e)) for _, e in exps))
    return _LIST_OPS[k][1]


def size_slice(B, S, thorough):
    """the systematic size-threshold x re-binding slice (the same for every seed): (family, list, only, stepwise).
    Lists of more than BIG_OPS operations where only the list-level steps can tell a re-binding from a fresh name
    go through merge_expressions, apply_cse and defaultOptimizer; the others through every step and both profiles."""
    out = []

    def add(fam, exps, list_only_when_big=True):
        big = list_ops(exps) > BIG_OPS
        out.append((fam, exps, LIST_ONLY if (big and list_only_when_big) else ALL_STEPS, not big))

    # one definition of every ladder size, rich in rule shapes: every step alone and both profiles
    for sz in LADDER:
        add("size1", [(S("_ret"), sized_expr(f"one-{sz}", B, [S(x) for x in "abcdef"], sz, rich=True))], False)
    # a name bound twice: ordered pairs of ladder sizes (thorough: all 49; quick: equal sizes, the two orders of
    # every pair of neighbouring rungs - whatever the threshold, one of them straddles it - and the two extremes)
    for i, s1 in enumerate(LADDER):
        for j, s2 in enumerate(LADDER):
            if not thorough and not (abs(i - j) <= 1 or abs(i - j) == len(LADDER) - 1) or (not thorough and i == j == len(LADDER) - 1):
                continue
            add("size2", rebind_list(B, S, f"p-{s1}-{s2}", [s1, s2], selfref=(1,) if (i + j) % 3 == 1 else ()))
    # a name bound twice to tiny expressions, the last reader of every ladder size
    for sz in LADDER:
        add("sizeR", rebind_list(B, S, f"rd-{sz}", [1, 8], selfref=(1,) if sz in (64, 1200) else (), reader=sz))
    # a name bound three times: the six mixed small/big patterns around the gaps of the ladder
    gaps = list(zip(LADDER, LADDER[1:])) if thorough else [(8, 64), (300, 600)]
    for lo, hi in gaps:
        for pat in ("SSB", "SBS", "SBB", "BSS", "BSB", "BBS") + (("SSS", "BBB") if thorough else ()):
            sizes = [lo if c == "S" else hi for c in pat]
            add("size3", rebind_list(B, S, f"t-{lo}-{hi}-{pat}", sizes, nvars=5, selfref=(2,) if pat[1] == "B" else (1,)))
    # a name bound k+1 times, each definition tiny, inlined size doubling
    for k in (1, 2, 3, 5, 7, 8, 9, 10):
        add("accum", accumulate_list(B, S, f"k{k}", k))
    # number of definitions
    for n in (1, 2, 10, 100, 300):
        for mode in ("distinct", "pool"):
            out.append(("ndefs", many_defs_list(B, S, f"{mode}-{n}", n, mode), ALL_STEPS, n <= 100))
    # number of variables
    for nv in range(1, 17):
        add("nvars", nvars_list(B, S, "s", nv))
    for nv in (7, 11, 16):
        add("nvars", nvars_list(B, S, "b", nv, big=600))
    return out


def random_size_lists(rng, B, S, thorough):
    """randomised variants of the size slice, drawn from ctx.rng"""
    out = []

    def add(fam, exps):
        big = list_ops(exps) > BIG_OPS
        out.append((fam, exps, LIST_ONLY if big else ALL_STEPS, not big))

    top = 3000 if thorough else 1500
    for _ in range(40 if thorough else 6):
        nb = rng.randint(2, 4)
        sizes = [max(1, int(round(top ** rng.random()))) for _ in range(nb)]
        while sum(sizes) > (6000 if thorough else 2500):
            sizes[sizes.index(max(sizes))] //= 2
        sr = tuple(i for i in range(1, nb) if rng.random() < 0.4)
        rd = max(1, int(round(top ** rng.random()))) if rng.random() < 0.3 else 0
        add("rsize", rebind_list(B, S, f"r{rng.getrandbits(40)}", sizes, nvars=rng.randint(1, 6), selfref=sr,
                                 rich=rng.random() < 0.3, reader=rd))
    for _ in range(10 if thorough else 2):
        add("raccum", accumulate_list(B, S, f"r{rng.getrandbits(40)}", rng.randint(2, 10 if thorough else 9), nvars=rng.randint(1, 5)))
    for _ in range(12 if thorough else 3):
        n = rng.randint(1, 300 if thorough else 120)
        out.append(("rndefs", many_defs_list(B, S, f"r{rng.getrandbits(40)}", n, rng.choice(("distinct", "pool")),
                                             chain=rng.randint(2, 15), nvars=rng.randint(1, 6)), ALL_STEPS, n <= 100))
    for _ in range(16 if thorough else 3):
        nv = rng.randint(1, 16)
        add("rnvars", nvars_list(B, S, f"r{rng.getrandbits(40)}", nv, big=rng.choice((0, 0, 100, 600))))
    return out


def random_size_programs(rng, thorough):
    out = []
    for k in range(16 if thorough else 4):
        w = rng.choice((2, 3, 3, 4) if thorough else (2, 3, 3))
        es = FE_SIZED[w]
        shape = rng.choice(sorted(FE_SHAPES))
        e1, e2 = rng.choice(es)[0], rng.choice(es)[0]
        if rng.random() < 0.5:  # the first right-hand side with a and b exchanged
            e1 = re.sub(r"\b([ab])\b", lambda m: "b" if m.group(1) == "a" else "a", e1)
        out.append((f"rsz{k}", fe_program(f"rsz{k}", w, shape, e1, e2)))
    return out


PROGRAMS = [
    "def p0(a: bool, b: bool) -> bool:\n    return a and b",
    "def p1(a: bool, b: bool, c: bool) -> bool:\n    return (a and b and c) or (not a and not b and not c)",
    "def p2(a: bool, b: bool, c: bool) -> bool:\n    x = a and b\n    return (x and c) or (not a and not b and not c)",
    "def p3(a: bool, b: bool) -> bool:\n    return (a and b) or (not a and not b)",
    "def p4(a: bool, b: bool, c: bool) -> bool:\n    return b if a else c",
    "def p5(a: bool, b: bool, c: bool, d: bool) -> bool:\n    x = a or b or c\n    y = x and d\n    return y or (x and not d)",
    "def p6(a: bool, b: bool, c: bool) -> Tuple[bool, bool]:\n    x = a != b\n    return (x and c, x or c)",
    "def p7(a: Qint[2], b: Qint[2]) -> bool:\n    return a == b",
    "def p8(a: Qint[2], b: Qint[2]) -> Qint[2]:\n    return a + b",
    "def p9(a: Qint[2], b: Qint[2]) -> bool:\n    return a > b",
    "def p10(a: Qint[2]) -> Qint[2]:\n    return a + 1",
    "def p11(a: Qint[2], b: bool) -> Qint[2]:\n    c = a + 1 if b else a\n    return c",
    "def p12(a: bool, b: bool, c: bool) -> bool:\n    x = a\n    x = not x\n    x = x and b\n    return x != c",
    "def p13(a: Qint[2], b: Qint[2]) -> bool:\n    return a != b and a[0]",
    "def p14(a: Tuple[bool, bool], b: bool) -> Tuple[bool, bool]:\n    return (a[1] and b, a[0] or b)",
    "def p15(a: bool, b: bool, c: bool, d: bool) -> bool:\n    return (a and b and c and d) or (not a and not b and not c and not d)",
    "def p16(a: bool, b: bool, c: bool) -> bool:\n    return (a or b or c) and not (a and b and c)",
    "def p17(a: Qint[2], b: Qint[2]) -> Qint[2]:\n    return a - b",
    "def p18(a: Qint[3]) -> bool:\n    return a == 5 or a == 2",
    "def p19(a: Qint[2], b: Qint[2], c: bool) -> Qint[2]:\n    x = a if c else b\n    return x + b",
    "def p20(a: bool, b: bool, c: bool) -> bool:\n    x = (a and b) or (not a and not b)\n    y = (x and c) or (not x and not c)\n    return y",
    "def p21(a: Qint[2], b: Qint[2]) -> bool:\n    return a <= b",
    "def p22(a: Qint[2]) -> Qint[4]:\n    return a * a",
    "def p23(a: bool, b: bool, c: bool) -> bool:\n    return (a and b and not c) or (not a and not b and c)",
]


def front_end_lists(ctx, lib, res, programs=None):
    """translate_ast outputs (no optimizer) for the pool (`programs`: sources or (name, source) pairs; default
    PROGRAMS); also checks that the per-expression simplify of translate_ast is the identity on the list, as the
    model has it"""
    Q = importlib.import_module("qlasskit")
    TA = importlib.import_module("qlasskit.ast2logic.t_ast")
    out = []
    calls = []
    orig = TA.simplify_logic

    def rec(e, *a, **k):
        r = orig(e, *a, **k)
        calls.append((e, r))
        return r

    TA.simplify_logic = rec
    try:
        for src in (PROGRAMS if programs is None else programs):
            name = None
            if isinstance(src, tuple):
                name, src = src
            calls.clear()
            try:
                qf = Q.qlassf(src, to_compile=False, bool_optimizer=lib.BO.BoolOptimizerProfile([]))
            except Exception as e:  # noqa
                ctx.log(f"[c04] front end rejected a pool program: {type(e).__name__}: {e}")
                continue
            exps = [(s, e) for s, e in qf.expressions]
            for i, r in calls:
                case = dict(front_simplify=str(i))
                res.count(case, bucket="front-simplify")
                try:
                    same = len(i) == 2 and len(r) == 2 and i[0] == r[0] and i[1] == r[1]
                except Exception:  # noqa
                    same = False
                if not same:
                    ok = False
                    try:
                        ok = i[0] == r[0] and expr_equiv(bexp.to_json(i[1]), bexp.to_json(r[1]))
                    except Exception:  # noqa
                        pass
                    if not ok:
                        res.violation(case, "translate_ast's simplify changed the meaning of a definition",
                                      code=str(r), expected=str(i))
                    else:
                        res.disagree(case, "translate_ast's simplify is no longer the identity (model: frontSimplify)",
                                     code=str(r), model=str(i))
            out.append((name or src.split("(")[0][4:], exps))
    finally:
        TA.simplify_logic = orig
    return out


# ----------------------------------------------------------------------------- one case = one list
def active_quirks(ctx):
    return sorted({f.get("quirk") for f in ctx.findings if f.get("status", "open") == "open" and f.get("_active") and f.get("quirk")})


def finding_for(ctx, quirk):
    for f in ctx.findings:
        if f.get("quirk") == quirk and f.get("status", "open") == "open" and f.get("_active"):
            return f
    return None


class Pending:
    """a property failure on the code waiting for attribution by the model's reply"""

    def __init__(self, case, what, detail, code, quirk, req_index, exact):
        self.case, self.what, self.detail, self.code = case, what, detail, code
        self.quirk, self.req_index, self.exact = quirk, req_index, exact


def same_tree(model_json, code_expr):
    """model's raw tree, passed through sympy's constructors, equals the code's tree"""
    try:
        if bexp.to_json(code_expr) == model_json:
            return True
        return bexp.from_json(model_json) == code_expr
    except Exception:  # noqa
        return False


def process_list(ctx, lib, res, tag, exps, reqs, checks, pend, profiles, only=None, stepwise=True):
    """`only`: the steps / profiles (by name) this list goes through (None = all of them); `stepwise`: re-run
    every profile one step at a time (blame + structural tie on the intermediate lists)"""
    dj0 = defs_json(exps)
    wf = not reads_ret(dj0)
    quirks = active_quirks(ctx)
    want = (lambda n: True) if only is None else (lambda n: n in only)  # noqa
    # long or big lists: the per-definition tie (xreplace / custom_simplify_logic with the growing substitution map)
    # and the evaluator cross-check are too much to ship to the model; the whole-list ties (merge, cse, profile) stay
    light = len(exps) > 40 or (not stepwise and list_ops(exps) > BIG_OPS)
    per_def_tie = not light
    # ---- single transformer steps
    for name in TRANSFORMERS:
        if not want(name):
            continue
        case = dict(step=name, defs=dj0)
        res.count(case, nontrivial=True, bucket=f"{tag}:{name}")
        try:
            out = lib.run_steps([name], exps)
        except Exception as e:  # noqa
            res.violation(case, f"{name} raised {type(e).__name__}: {e}")
            continue
        dj1 = defs_json(out)
        bad = check_property(dj0, dj1)
        idxs = []
        for (s, e), (s1, e1) in zip(exps, out):
            reqs.append(dict(op="c04.expr", t=name, e=bexp.to_json(e), quirks=quirks))
            idxs.append(len(reqs) - 1)
            checks.append(("expr", case, len(reqs) - 1, e1, s.name == s1.name))
        if len(out) != len(exps):
            res.violation(case, "a transformer step changed the number of definitions", code=dj1)
        elif bad:
            q = "or2xorNoArity" if name == "transform_or2xor" else None
            pend.append(Pending(case, bad[0], bad[1], dj1, q, idxs, [e1 for _, e1 in out]))
    # ---- merge_expressions
    case = dict(step="merge_expressions", defs=dj0)
    lib.reset()
    merged = None
    if want("merge_expressions"):
        res.count(case, bucket=f"{tag}:merge_expressions")
        try:
            merged = lib.run_steps(["merge_expressions"], exps)
        except Exception as e:  # noqa
            res.violation(case, f"merge_expressions raised {type(e).__name__}: {e}")
    if merged is not None:
        dj1 = defs_json(merged)
        if wf:
            bad = check_property(dj0, dj1)
            if bad:
                res.violation(case, bad[0], detail=bad[1], code=dj1)
            if any(not is_ret(n) for n, _ in dj1):
                res.violation(case, "merge_expressions kept an intermediate definition", code=dj1)
        table = []
        for i, o in unique_calls(lib.simp_calls):
            ij, oj = bexp.to_json(i), bexp.to_json(o)
            table.append([ij, oj])
            if not expr_equiv(ij, oj):
                res.disagree(case, "sympy.simplify_logic broke the spec the theorems assume (SimpSound)", code=oj, model=ij)
        # per definition: xreplace and custom_simplify_logic
        emap = []
        if len(lib.csl_top) == len(exps) and not per_def_tie:
            pass  # long lists: the growing substitution map per definition is too much to ship; whole-list tie below
        elif len(lib.csl_top) == len(exps):
            for (s, e), (ci, co) in zip(exps, lib.csl_top):
                reqs.append(dict(op="c04.xreplace", e=bexp.to_json(e), emap=[[k, v] for k, v in emap]))
                checks.append(("tree", dict(case, at=s.name, sub="xreplace"), len(reqs) - 1, ci, True))
                reqs.append(dict(op="c04.csl", e=bexp.to_json(ci), simp=table))
                checks.append(("csl", dict(case, at=s.name, sub="custom_simplify_logic"), len(reqs) - 1, co, True))
                if not is_ret(s.name):
                    emap.insert(0, [s.name, bexp.to_json(co)])
        else:
            res.disagree(case, "merge_expressions no longer calls custom_simplify_logic once per definition",
                         code=len(lib.csl_top), model=len(exps))
        reqs.append(dict(op="c04.merge", defs=dj0, simp=table))
        checks.append(("merge", case, len(reqs) - 1, dj1, wf))
    # ---- apply_cse
    case = dict(step="apply_cse", defs=dj0)
    lib.reset()
    out = None
    if want("apply_cse"):
        res.count(case, bucket=f"{tag}:apply_cse")
        try:
            out = lib.run_steps(["apply_cse"], exps)
            dj1 = defs_json(out)
        except Exception as e:  # noqa
            res.violation(case, f"apply_cse raised {type(e).__name__}: {e}")
            out = None
    if out is not None:
        if len(lib.cse_calls) != 1:
            res.disagree(case, "apply_cse no longer makes exactly one cse call", code=len(lib.cse_calls), model=1)
        else:
            es, (repl, red) = lib.cse_calls[0]
            rj = [[s.name, bexp.to_json(e)] for s, e in repl]
            dj_red = [bexp.to_json(e) for e in red]
            spec = cse_spec(dj0, rj, dj_red)
            if spec:
                res.disagree(case, "sympy.cse broke the spec the theorems assume (CseSpec): " + spec, code=[rj, dj_red])
            reqs.append(dict(op="c04.cse", defs=dj0, repl=rj, red=dj_red, quirks=quirks))
            checks.append(("cse", case, len(reqs) - 1, dj1, True))
            bad = check_property(dj0, dj1) if wf else None
            if bad:
                pend.append(Pending(case, bad[0], bad[1], dj1, "cseHoistsOverBindings", [len(reqs) - 1], None))
    # ---- whole profiles
    for pname, prof, names in profiles:
        if not want(pname):
            continue
        case = dict(profile=pname, defs=dj0)
        res.count(case, bucket=f"{tag}:profile-{pname}")
        lib.reset()
        try:
            whole = list(prof.apply(list(exps)))
        except Exception as e:  # noqa
            res.violation(case, f"{pname}.apply raised {type(e).__name__}: {e}")
            continue
        djw = defs_json(whole)
        simp_t = [[bexp.to_json(i), bexp.to_json(o)] for i, o in unique_calls(lib.simp_calls)]
        cse_t = [[[bexp.to_json(e) for e in es], [[s.name, bexp.to_json(e)] for s, e in r[0]], [bexp.to_json(e) for e in r[1]]]
                 for es, r in lib.cse_calls]
        # stepwise, through the same step objects, one at a time
        cur = list(exps)
        blamed, unexplained = [], None
        idxs, exact = [], []
        try:
            for st in (prof.steps if stepwise else []):
                nm = st.__name__ if hasattr(st, "__name__") else type(st).__name__
                nxt = list(lib.BO.BoolOptimizerProfile([st]).apply(list(cur)))
                b = check_property(defs_json(cur), defs_json(nxt)) if wf else None
                if b:
                    blamed.append(nm)
                if nm in TRANSFORMERS and len(nxt) == len(cur) and cur is not exps:
                    # the transformer on the intermediate list of the profile run: structural tie
                    for (s0, e0), (s1, e1) in zip(cur, nxt):
                        reqs.append(dict(op="c04.expr", t=nm, e=bexp.to_json(e0), quirks=quirks))
                        checks.append(("expr", dict(case, at_step=nm, at=s0.name), len(reqs) - 1, e1, s0.name == s1.name))
                        if b:
                            idxs.append(len(reqs) - 1)
                            exact.append(e1)
                elif b and nm in TRANSFORMERS:
                    for (s0, e0), (s1, e1) in zip(cur, nxt):
                        reqs.append(dict(op="c04.expr", t=nm, e=bexp.to_json(e0), quirks=quirks))
                        idxs.append(len(reqs) - 1)
                        exact.append(e1)
                cur = nxt
        except Exception as e:  # noqa
            unexplained = f"stepwise run raised {type(e).__name__}: {e}"
        if stepwise and unexplained is None and defs_json(cur) != djw:
            res.disagree(case, "BoolOptimizerProfile.apply differs from applying its steps one after the other",
                         code=djw, model=defs_json(cur))
        bad = check_property(dj0, djw) if wf else None
        if bad:
            # attributable only when every failing step inside is an or2xor step that the quirk model explains
            ok = unexplained is None and bool(blamed) and all(nm == "transform_or2xor" for nm in blamed)
            pend.append(Pending(case, bad[0], bad[1], djw, "or2xorNoArity" if ok else None, idxs if ok else [], exact))
        if wf:
            reqs.append(dict(op="c04.profile", steps=names, defs=dj0, simp=simp_t, cse=cse_t, quirks=quirks))
            checks.append(("profile", case, len(reqs) - 1, djw, bad is None))
            fb = free_syms(dj0)
            rets = sorted(set(ret_names(dj0)))
            rows = rows_for(fb)
            if not light or len(exps) > 40:
                reqs.append(dict(op="c04.tt", defs=djw, inputs=fb, rets=rets, **({} if rows is None else dict(rows=rows))))
                checks.append(("tt", case, len(reqs) - 1, (ret_table(djw, fb, rets, rows), free_syms(djw), ret_names(djw)), True))


def unique_calls(calls):
    """the observed (argument, result) pairs without repetitions, in order of first occurrence"""
    seen, out = set(), []
    for i, o in calls:
        if (i, o) not in seen:
            seen.add((i, o))
            out.append((i, o))
    return out


def cse_spec(dj, repl, red):
    """None when (repl, red) meets CseSpec for the right-hand sides of dj"""
    es = [e for _, e in dj]
    if len(red) != len(es):
        return "length"
    if any(is_ret(n) for n, _ in repl):
        return "a generated name is a return symbol"
    syms_es = []
    for e in es:
        bexp.syms_json(e, syms_es)
    rn = [n for n, _ in repl]
    if any(v not in syms_es for v in free_syms(repl)):
        return "an extracted definition reads a new symbol"
    for e in red:
        if any(v not in syms_es and v not in rn for v in bexp.syms_json(e)):
            return "a reduced expression reads a new symbol"
    inputs = list(syms_es)
    rows = rows_for(inputs)
    nrows, env = seq_eval_bits([], inputs, rows)
    _, env2 = seq_eval_bits(repl, inputs, rows)
    full = (1 << nrows) - 1
    for e, r in zip(es, red):
        if eval_bits(e, env, full) != eval_bits(r, env2, full):
            return "not equivalent"
    return None


def settle(ctx, res, reqs, checks, pend):
    replies = ctx.model(reqs) if reqs else []
    if replies is None:
        for p in pend:
            res.violation(p.case, p.what, detail=p.detail, code=p.code)
        return
    for kind, case, idx, code, flag in checks:
        rep = replies[idx]
        if "driver_error" in rep:
            res.disagree(case, "model driver error: " + str(rep["driver_error"]), code=str(code))
            continue
        if kind == "expr":
            if not flag:
                res.disagree(case, "a transformer step renamed a definition", code=str(code))
            elif not same_tree(rep["out"], code):
                res.disagree(case, "model and code differ on a transformer's output tree",
                             code=bexp.to_json(code), model=rep["out"], request=reqs[idx])
        elif kind == "tree":
            # sympy's xreplace re-makes a node only when an argument changed, the model always: compare both
            # sides after sympy's constructors (the identity on every tree sympy built itself)
            if not same_tree(rep["out"], code) and bexp.from_json(rep["out"]) != bexp.from_json(bexp.to_json(code)):
                res.disagree(case, "model and code differ on xreplace", code=bexp.to_json(code), model=rep["out"], request=reqs[idx])
        elif kind == "csl":
            if rep.get("misses", 0) != 0:
                res.disagree(case, "custom_simplify_logic calls simplify_logic on other sub-expressions than the model",
                             code=reqs[idx]["simp"], model=rep)
            elif not same_tree(rep["out"], code):
                res.disagree(case, "model and code differ on custom_simplify_logic", code=bexp.to_json(code), model=rep["out"], request=reqs[idx])
        elif kind == "merge":
            mo = rep["out"]
            if [n for n, _ in mo] != [n for n, _ in code]:
                res.disagree(case, "model and code differ on the names merge_expressions keeps", code=code, model=mo)
            else:
                dj0 = case["defs"]
                fb = free_syms(dj0)
                new = [v for v in free_syms(mo) + free_syms(code) if v not in fb]
                if not reads_ret(dj0) and new:
                    res.disagree(case, "merge_expressions: new free symbol in model or code", code=code, model=mo)
                else:
                    inputs = fb + [v for v in new if v not in fb]
                    if positional_table(mo, inputs) != positional_table(code, inputs):
                        res.disagree(case, "model and code differ (functionally) on merge_expressions", code=code, model=mo)
        elif kind == "cse":
            if rep["out"] != code:
                res.disagree(case, "model and code differ on apply_cse", code=code, model=rep["out"])
        elif kind == "profile":
            # the run of the repaired model (raw trees: the listed quirks may fire elsewhere than on sympy's trees)
            mo = rep["out_fixed"]
            dj0 = case["defs"]
            fb = free_syms(dj0)
            rets = sorted(set(ret_names(dj0)))
            if ret_names(mo) != ret_names(code):
                res.disagree(case, "model and code differ on the return symbols a profile keeps", code=code, model=mo)
            elif flag and ret_table(rep["out_fixed"], fb, rets, rows_for(fb)) != ret_table(code, fb, rets, rows_for(fb)):
                res.disagree(case, "model and code differ (functionally) on a whole profile", code=code, model=mo)
        elif kind == "tt":
            tt, fr, rn = code
            if rep.get("tt") != tt or rep.get("rets") != rn or sorted(rep.get("free", [])) != sorted(fr):
                res.disagree(case, "the harness's evaluator and the Lean evalDefs/freeSyms/retNames differ", code=code, model=rep)
    for p in pend:
        f = finding_for(ctx, p.quirk) if p.quirk else None
        ok = False
        if f is not None and p.req_index:
            reps = [replies[i] for i in p.req_index]
            if not any("driver_error" in r for r in reps) and any(r.get("trigger") for r in reps):
                if p.quirk == "or2xorNoArity":
                    # the quirk model gives exactly the code's trees, and the repaired model is right
                    ok = all(same_tree(r["out"], e) for r, e in zip(reps, p.exact)) and all(
                        expr_equiv(reqs[i]["e"], r["out_fixed"]) for i, r in zip(p.req_index, reps))
                else:
                    r = reps[0]
                    ok = r["out"] == p.code and not r.get("safe") and check_property(p.case["defs"], r["out_fixed"]) is None
        if ok:
            res.known(f["id"])
        else:
            res.violation(p.case, p.what, detail=p.detail, code=p.code)


def positional_table(dj, inputs):
    """value of every definition, in list order, on every assignment"""
    nrows, masks = input_masks(len(inputs), rows_for(inputs))
    full = (1 << nrows) - 1
    env = dict(zip(inputs, masks))
    cols = []
    for n, e in dj:
        env[n] = eval_bits(e, env, full)
        cols.append(env[n])
    return cols


def describe_lists(sized):
    """the input distribution of the size slice, per family: how many lists, how often a name is bound, the sizes
    (operations, harness's own count) of the bound expressions, numbers of definitions and of free symbols"""
    edges = [0, 1, 8, 64, 300, 512, 600, 1200, 2500]

    def bucket(v, edges_):
        lab = f">{edges_[-1]}"
        for lo in edges_:
            if v <= lo:
                lab = f"<={lo}"
                break
        return lab

    out = {}
    for fam, exps, only, stepwise in sized:
        d = out.setdefault(fam, dict(lists=0, through_every_step=0, list_steps_and_default_profile_only=0,
                                     times_one_name_is_bound={}, definition_ops={}, definitions={}, free_symbols={},
                                     max_definition_ops=0, total_ops=0, inlined_ops={}, max_inlined_ops=0))
        dj = defs_json(exps)
        names = [n for n, _ in dj]
        d["lists"] += 1
        d["through_every_step" if only is None else "list_steps_and_default_profile_only"] += 1
        k = str(max(names.count(n) for n in names))
        d["times_one_name_is_bound"][k] = d["times_one_name_is_bound"].get(k, 0) + 1
        for _, e in dj:
            o = ops_json(e)
            b = bucket(o, edges)
            d["definition_ops"][b] = d["definition_ops"].get(b, 0) + 1
            d["max_definition_ops"] = max(d["max_definition_ops"], o)
            d["total_ops"] += o
        inl = {}  # operations of every name's expression once the intermediates it reads are inlined (no simplification)
        for n, e in dj:
            inl[n] = ops_json(e) + sum(inl.get(v, 0) for v in sym_occurrences(e))
            b = bucket(inl[n], edges)
            d["inlined_ops"][b] = d["inlined_ops"].get(b, 0) + 1
            d["max_inlined_ops"] = max(d["max_inlined_ops"], inl[n])
        b = bucket(len(dj), [1, 2, 10, 50, 100, 300])
        d["definitions"][b] = d["definitions"].get(b, 0) + 1
        nf = str(len(free_syms(dj)))
        d["free_symbols"][nf] = d["free_symbols"].get(nf, 0) + 1
    num = lambda kv: (kv[0][0] == ">", int(kv[0].lstrip("<=>")))  # noqa
    for d in out.values():
        for k in ("times_one_name_is_bound", "definition_ops", "inlined_ops", "definitions", "free_symbols"):
            d[k] = dict(sorted(d[k].items(), key=num))
    return out


def sym_occurrences(j):
    if j[0] == "sym":
        return [j[1]]
    return [v for x in j[1:] if isinstance(x, list) for v in sym_occurrences(x)]


# ----------------------------------------------------------------------------- entry points
def shipped_profiles(ctx, lib, res):
    BO = lib.BO
    profs = []
    rep = ctx.model([dict(op="c04.tables")])
    for pname, key in (("defaultOptimizer", "default"), ("fastOptimizer", "fast")):
        prof = getattr(BO, pname)
        names = lib.profile_names(prof)
        case = dict(profile=pname, steps=names)
        res.count(case, bucket="tables")
        if rep is not None and rep[0].get(key) != names:
            res.disagree(case, "the step list extracted from source differs from the imported profile object",
                         code=names, model=rep[0].get(key))
        profs.append((pname, prof, names))
    if rep is not None and rep[0].get("disableOr") != lib.ET.DISABLE_OR:
        res.disagree(dict(table="DISABLE_OR"), "extracted DISABLE_OR differs", code=lib.ET.DISABLE_OR, model=rep[0].get("disableOr"))
    return profs


def run(ctx: Ctx) -> Result:
    res = Result("C04")
    res.rule = ("a case = one definition list through one step or one whole profile; non-trivial = every case "
                f"(each runs the real code and the oracle on all assignments of up to {FULL_MAX} free symbols, beyond on "
                f"{N_SAMPLED} pseudo-random assignments plus all-false, all-true, every one-hot and one-cold one)")
    import sympy
    import sympy.logic.boolalg as B

    S = sympy.Symbol
    rng = ctx.rng
    with Lib() as lib:
        profiles = shipped_profiles(ctx, lib, res)
        head = [("sys", l) for l in systematic(B, S)]
        head += [("front:" + n, l) for n, l in front_end_lists(ctx, lib, res)]
        # depth of return-bit names: systematic lists + front-end programs (same for every seed), random variants
        dl = depth_lists(B, S) + [("frontdepth", exps) for _, exps in front_end_lists(ctx, lib, res, DEPTH_PROGRAMS)]
        rdl = random_depth_lists(rng, B, S, ctx.thorough)
        rdl += [("rfrontdepth", exps) for _, exps in front_end_lists(ctx, lib, res, random_depth_programs(rng, ctx.thorough))]
        res.extra["return_name_depth_slice"] = describe_depth(dl + rdl)
        # Or of two Ands of different arities: the single step and both profiles
        al = arity_lists(B, S, ctx.thorough)
        al += [("frontarity", exps, dict(kind="front-end program", variables=len(free_syms(defs_json(exps)))))
               for _, exps in front_end_lists(ctx, lib, res, ARITY_PROGRAMS)]
        ral = random_arity_lists(rng, B, S, ctx.thorough)
        res.extra["or_arity_slice"] = describe_arity(al + ral)
        head_more = [(fam, exps, ALL_STEPS, True) for fam, exps in dl]
        head_more += [(fam, exps, ALL_STEPS if fam == "frontarity" else XOR_ONLY, True) for fam, exps, _ in al]
        rand_more = [(fam, exps, ALL_STEPS, True) for fam, exps in rdl] + [(fam, exps, XOR_ONLY, True) for fam, exps, _ in ral]
        rand = []
        n_rand = 1500 if ctx.thorough else 160
        for k in range(n_rand):
            hint = 2 if k % 3 else 3
            rand.append(("rand", gen_list(rng, B, S, hint)))
        n_rule = 1200 if ctx.thorough else 150
        syms = [S(x) for x in "abcd"]
        for k in range(n_rule):
            # single return, deeper expressions, rich in rule shapes
            rand.append(("randexpr", [(S("_ret"), gen_expr(rng, B, syms[: rng.randint(2, 4)], 3 if k % 2 else 4))]))

        def reduced(fam, exps):
            big = list_ops(exps) > BIG_OPS
            return (fam, exps, LIST_ONLY if big else ALL_STEPS, not big)

        # size thresholds x re-binding: systematic slice (same for every seed), then randomised variants
        sized = list(size_slice(B, S, ctx.thorough))
        sized += [reduced("frontsz", exps) for _, exps in front_end_lists(ctx, lib, res, size_programs(ctx.thorough))]
        rsized = random_size_lists(rng, B, S, ctx.thorough)
        rsized += [reduced("rfrontsz", exps) for _, exps in front_end_lists(ctx, lib, res, random_size_programs(rng, ctx.thorough))]
        res.extra["size_threshold_slice"] = describe_lists(sized + rsized)
        # small lists first: the first failing input reported is a small one
        sized = [x for _, x in sorted(enumerate(sized), key=lambda ix: (list_ops(ix[1][1]), ix[0]))]
        # order: systematic slices, then the random parts
        lists = [(tag, exps, ALL_STEPS, True) for tag, exps in head] + head_more + sized
        lists += [(tag, exps, ALL_STEPS, True) for tag, exps in rand] + rand_more + rsized
        reqs, checks, pend = [], [], []
        volume = 0
        spent = {}  # seconds per family (QV_C04_TIMING=1 prints them)
        for tag, exps, only, stepwise in lists:
            t0 = time.time()
            process_list(ctx, lib, res, tag.split(":")[0], exps, reqs, checks, pend, profiles, only=only, stepwise=stepwise)
            volume += list_ops(exps) if not stepwise else 0
            spent[tag.split(":")[0]] = spent.get(tag.split(":")[0], 0.0) + time.time() - t0
            if len(reqs) > 4000 or volume > 20000:
                t0 = time.time()
                settle(ctx, res, reqs, checks, pend)
                spent["model"] = spent.get("model", 0.0) + time.time() - t0
                reqs, checks, pend = [], [], []
                volume = 0
                if os.environ.get("QV_C04_TIMING"):
                    ctx.log("[c04] seconds so far: " + json.dumps({k: round(v, 1) for k, v in spent.items()}))
        t0 = time.time()
        settle(ctx, res, reqs, checks, pend)
        spent["model"] = spent.get("model", 0.0) + time.time() - t0
        if os.environ.get("QV_C04_TIMING"):
            ctx.log("[c04] seconds per family: " + json.dumps({k: round(v, 1) for k, v in spent.items()}))
    res.assumptions.append(
        "sympy's constructors, simplify_logic and cse are parameters of the model; their specs (Kernel.Sound, SimpSound, "
        "CseSpec) are hypotheses of the theorems and are checked on every call observed in the run")
    res.notes.append("well-formed list = no right-hand side reads a `_ret*` symbol (RetsNotRead); lists are run through each of the "
                     "7 steps alone and through defaultOptimizer / fastOptimizer")
    res.notes.append(f"size-threshold x re-binding slice (coverage.size_threshold_slice): ladder {list(LADDER)} operations; lists of "
                     f"more than {BIG_OPS} operations whose point is the re-binding go through merge_expressions, apply_cse and "
                     "defaultOptimizer only (the transformers and fastOptimizer see every ladder size in the families size1 and "
                     "the small lists), without the step-by-step re-run and the per-definition model tie")
    res.notes.append(f"return-name depth slice (coverage.return_name_depth_slice): return bits with 0..{MAX_RET_DEPTH} indices (random: up "
                     "to 8), single- and multi-digit, mixed with look-alike intermediates bound twice, lists and front-end programs "
                     "with nested container return types, through every step and both profiles; Or-arity slice "
                     "(coverage.or_arity_slice): Or of two Ands of arities 2v3, 2v4, 3v4 (thorough: up to 4v5) with complementary "
                     "common literals, every polarity and position, through transform_or2xor and both profiles")
    return res


def _run_case(lib, case):
    exps = defs_from_json(case["defs"])
    if "step" in case:
        out = lib.run_steps([case["step"]], exps)
    else:
        out = list(getattr(lib.BO, case["profile"]).apply(list(exps)))
    return defs_json(out)


def witness_fails(ctx: Ctx, f):
    w = f.get("witness") or {}
    if "defs" not in w:
        return None
    with Lib() as lib:
        try:
            out = _run_case(lib, w)
        except Exception:  # noqa
            return True
    return check_property(w["defs"], out) is not None


def replay(ctx: Ctx, payload):
    first = payload.get("first") or {}
    case = first.get("case") or {}
    if not case and payload.get("correspondence_disagreements"):
        case = payload["correspondence_disagreements"][0].get("case", {})
    print("replaying", json.dumps(case)[:2000])
    if "defs" not in case or not ("step" in case or "profile" in case):
        print("nothing to replay on the code for this payload")
        return 2
    with Lib() as lib:
        try:
            out = _run_case(lib, case)
        except Exception as e:  # noqa
            print(f"raised {type(e).__name__}: {e}")
            return 1
    print("code output:", json.dumps(out))
    bad = check_property(case["defs"], out)
    print("property:", "holds" if bad is None else f"VIOLATED - {bad[0]} {json.dumps(bad[1])}")
    return 0 if bad is None else 1
