"""Reference semantics of the qlasskit python subset, written for the C01 check.

Independent of qlasskit: the *source text* of a program is parsed with CPython's `ast` and
interpreted here on concrete argument values, under two semantics at once:

  Sem   exact python values (unbounded ints, bools, chars as code points, tuples)
  SemW  the documented fixed-width unsigned meaning: every operation computed exactly, then
        reduced modulo 2^w, w = width of the type the library's typing rules give the result
        (rules pinned from the code, listed in DESIGN '### C01': constants take the least of
        Qint2/4/6/8/12/16, + - & | ^ take the wider operand, * takes mul_sizing(2*max),
        shifts and ~ keep the type, if-expressions widen the narrower branch, return fills or
        crops to the declared type; constant sub-expressions are folded first, as python ints).

Every value carries
  ty   its library type
  ex   the exact python value (Sem)
  wr   the wrapped value (SemW)
  k    None  = exact: no intermediate left the range of its type, the code must give `ex`;
       n > 0 = only the low n bits are determined by wrap-around arithmetic (value reached through
               + - * << & | ^ ~, constants and if-expressions with exact tests): code == ex mod 2^n
       0     = nothing is claimed (a comparison, >>, %, index on a wrapped value; an IndexError)
  const  the value is a compile-time constant for the library (literal, folded, loop variable)
"""
from __future__ import annotations

import ast
from fractions import Fraction

CONST_WIDTHS = [2, 4, 6, 8, 12, 16]
QINT_WIDTHS = [2, 3, 4, 5, 6, 7, 8, 12, 16]
BOOL = ("bool",)
QCHAR = ("qchar",)


class Reject(Exception):
    """the program is outside what this oracle gives a meaning to (not a verdict on the code)"""


class Malformed(Exception):
    """the program is outside the documented subset: the library must reject it"""


def qint(w):
    return ("qint", w)


def ty_size(t):
    if t[0] == "qint":
        return t[1]
    if t[0] == "qchar":
        return 8
    if t[0] == "qfixed":
        return t[1] + t[2]
    return None


def ty_bits(t):
    if t[0] == "bool":
        return 1
    if t[0] == "tuple":
        return sum(ty_bits(x) for x in t[1])
    return ty_size(t)


def ty_names(base, t):
    if t[0] == "bool":
        return [base]
    if t[0] == "tuple":
        out = []
        for i, x in enumerate(t[1]):
            out += ty_names(f"{base}.{i}", x)
        return out
    return [f"{base}.{i}" for i in range(ty_size(t))]


def ty_json(t):
    """Lean-side type; None when the model has no such type"""
    if t[0] in ("bool", "qchar"):
        return [t[0]]
    if t[0] == "qint":
        return ["qint", t[1]]
    if t[0] == "tuple":
        sub = [ty_json(x) for x in t[1]]
        if any(s is None for s in sub):
            return None
        return ["tuple"] + sub
    return None


def parse_ann(a):
    """type annotation -> ty"""
    if isinstance(a, ast.Name):
        if a.id == "bool":
            return BOOL
        if a.id == "Qchar":
            return QCHAR
        if a.id.startswith("Qint") and a.id[4:].isdigit():
            w = int(a.id[4:])
            if w in QINT_WIDTHS:
                return qint(w)
        if a.id.startswith("Qfixed") and "_" in a.id:
            i, f = a.id[6:].split("_")
            return ("qfixed", int(i), int(f))
        raise Reject(f"type {a.id}")
    if isinstance(a, ast.Subscript) and isinstance(a.value, ast.Name):
        sl = a.slice
        elts = sl.elts if isinstance(sl, ast.Tuple) else [sl]
        h = a.value.id
        if h == "Qint" and len(elts) == 1 and isinstance(elts[0], ast.Constant) and elts[0].value in QINT_WIDTHS:
            return qint(elts[0].value)
        if h == "Qfixed" and len(elts) == 2:
            return ("qfixed", elts[0].value, elts[1].value)
        if h == "Tuple":
            return ("tuple", tuple(parse_ann(e) for e in elts))
        if h == "Qlist" and len(elts) == 2:
            return ("tuple", tuple([parse_ann(elts[0])] * elts[1].value))
        if h == "Qmatrix" and len(elts) == 3:
            # Qmatrix[T, n, m]: n rows of m columns (docs: the matrix [[1,2],[3,4]] is Qmatrix[Qint[2],2,2])
            row = ("tuple", tuple([parse_ann(elts[0])] * elts[2].value))
            return ("tuple", tuple([row] * elts[1].value))
    raise Reject("annotation " + ast.dump(a))


class V:
    __slots__ = ("ty", "ex", "wr", "k", "const", "items")

    def __init__(self, ty, ex=None, wr=None, k=None, const=False, items=None):
        self.ty, self.ex, self.k, self.const, self.items = ty, ex, k, const, items
        self.wr = ex if wr is None else wr

    def __repr__(self):
        if self.items is not None:
            return f"V({self.items})"
        return f"V({self.ty},{self.ex},wr={self.wr},k={self.k}{',c' if self.const else ''})"


def kmin(*ks):
    """combine determinacies: None = exact (infinity)"""
    out = None
    for k in ks:
        if k is not None and (out is None or k < out):
            out = k
    return out


def const_ty(v):
    for w in CONST_WIDTHS:
        if v < 2 ** w:
            return qint(w)
    raise Reject("constant too big")


def mk_const(v):
    """a python constant as the library types it (after folding)"""
    if v is True or v is False:
        return V(BOOL, v, const=True)
    if isinstance(v, int):
        t = const_ty(v)
        w = t[1]
        return V(t, v, v % 2 ** w, None if 0 <= v < 2 ** w else w, const=True)
    if isinstance(v, str) and len(v) == 1:
        return V(QCHAR, ord(v), const=True)
    raise Reject(f"constant {v!r}")


def mk_int(ty, ex, ks):
    """result of a low-bits-closed operation of type ty with exact value ex"""
    w = ty_size(ty)
    wr = ex % 2 ** w
    kk = kmin(*ks)
    if kk is None and 0 <= ex < 2 ** w:
        return V(ty, ex, wr, None)
    return V(ty, ex, wr, w if kk is None else min(kk, w))


def mk_open(ty, ex, ks):
    """result of an operation that reads whole values: exact iff every operand is exact"""
    kk = kmin(*ks)
    if ty == BOOL:
        return V(BOOL, bool(ex), None, None if kk is None else 0)
    w = ty_size(ty)
    if kk is None and 0 <= ex < 2 ** w:
        return V(ty, ex, ex, None)
    return V(ty, ex, ex % 2 ** w, 0)


def widen_ty(a, b):
    """type of an if-expression with branches of types a (body) and b (orelse)"""
    if a == b:
        return a
    sa, sb = ty_size(a), ty_size(b)
    if sa is None or sb is None or a[0] == "qfixed" or b[0] == "qfixed":
        raise Reject("if-expression over different unsized types")
    return b if sa < sb else a


def retag(v, ty):
    """the same value seen at a (wider or equal) type"""
    if v.ty == ty or v.items is not None:
        return v
    return V(ty, v.ex, v.wr, v.k, v.const)


def select(test, tv, fv):
    """test ? tv : fv with the typing of IfExp"""
    if test.ty != BOOL:
        raise Malformed("if test is not a bool")
    if tv.items is not None or fv.items is not None:
        if tv.ty != fv.ty:
            raise Reject("if-expression over different tuple types")
        ch = tv if test.ex else fv
        if test.k is not None:
            return undetermined(ch)
        return ch
    ty = widen_ty(tv.ty, fv.ty)
    ch = tv if test.ex else fv
    k = ch.k if test.k is None else 0
    return V(ty, ch.ex, ch.wr, k)


def undetermined(v):
    if v.items is not None:
        return V(v.ty, items=[undetermined(x) for x in v.items])
    return V(v.ty, v.ex, v.wr, 0)


def mul_sizing(s):
    for w in (2, 4, 6, 8, 12):
        if s <= w:
            return w
    return 16


INT_OPS = {
    ast.Add: lambda a, b: a + b, ast.Sub: lambda a, b: a - b, ast.Mult: lambda a, b: a * b,
    ast.BitXor: lambda a, b: a ^ b, ast.BitAnd: lambda a, b: a & b, ast.BitOr: lambda a, b: a | b,
    ast.LShift: lambda a, b: a << b, ast.RShift: lambda a, b: a >> b, ast.Mod: lambda a, b: a % b,
    ast.Pow: lambda a, b: a ** b, ast.FloorDiv: lambda a, b: a // b,
}
CMP_OPS = {
    ast.Eq: lambda a, b: a == b, ast.NotEq: lambda a, b: a != b, ast.Lt: lambda a, b: a < b,
    ast.LtE: lambda a, b: a <= b, ast.Gt: lambda a, b: a > b, ast.GtE: lambda a, b: a >= b,
}


def is_pow2(n):
    return n > 0 and n & (n - 1) == 0


class Interp:
    """one run of a program on concrete arguments"""

    def __init__(self, quirks=()):
        # emulation of listed ast2ast defects (harness-side quirk model), e.g. "matrixMaxJ"
        self.quirks = set(quirks)
        self.events = set()

    # ------------------------------------------------------------------ expressions
    def binop(self, op, l, r):
        if l.items is not None or r.items is not None:
            raise Malformed("arithmetic on a tuple")
        if l.const and r.const and l.ty != QCHAR and r.ty != QCHAR:
            # ConstantFolder: python arithmetic on the literals
            f = INT_OPS.get(op)
            if f is None:
                raise Reject("operator")
            try:
                v = f(l.ex, r.ex)
            except (ZeroDivisionError, ValueError):
                raise Malformed("constant expression raises")
            if isinstance(v, float):
                raise Reject("float")
            return mk_const(v)
        if l.ty == BOOL and r.ty == BOOL:
            if op in (ast.BitXor, ast.BitAnd, ast.BitOr):
                return V(BOOL, bool(INT_OPS[op](l.ex, r.ex)), None, kmin(l.k, r.k) if kmin(l.k, r.k) is None else 0)
            raise Malformed("arithmetic on bools")
        if l.ty[0] == "qfixed" or r.ty[0] == "qfixed":
            return self.fixed_binop(op, l, r)
        if l.ty[0] != "qint" or (r.ty[0] != "qint" and op not in (ast.LShift, ast.RShift)):
            raise Malformed("arithmetic on non-Qint operands")
        wl = l.ty[1]
        if op in (ast.LShift, ast.RShift):
            if not r.const or r.ty[0] != "qint" or r.ex < 0:
                raise Malformed("shift by a non-constant")
            if op is ast.LShift:
                return mk_int(l.ty, l.ex << r.ex, [l.k])
            return mk_open(l.ty, l.ex >> r.ex, [l.k])
        wr_ = r.ty[1]
        wide = r.ty if wl < wr_ else l.ty
        if op is ast.Add:
            return mk_int(wide, l.ex + r.ex, [l.k, r.k])
        if op is ast.Sub:
            return mk_int(wide, l.ex - r.ex, [l.k, r.k])
        if op is ast.Mult:
            return mk_int(qint(mul_sizing(2 * max(wl, wr_))), l.ex * r.ex, [l.k, r.k])
        if op in (ast.BitXor, ast.BitAnd, ast.BitOr):
            ty = l.ty if wl > wr_ else r.ty
            return mk_int(ty, INT_OPS[op](l.ex, r.ex), [l.k, r.k])
        if op is ast.Mod:
            # documented: "Modulo operator only works with 2^n values"; python's meaning is kept as the
            # reference for every divisor (a different function must not be produced silently)
            if not (r.const and is_pow2(r.ex)):
                self.events.add("modNonPow2")
            ty = l.ty if wl > wr_ else r.ty
            if r.ex == 0:
                return V(ty, 0, 0, 0)
            return mk_open(ty, l.ex % r.ex, [l.k, r.k])
        if op is ast.Pow:
            if not (r.const and r.ex >= 0):
                raise Malformed("power with a non-constant exponent")
            if r.ex == 0:
                return mk_const(1)
            acc = l
            for _ in range(r.ex - 1):
                acc = self.binop(ast.Mult, acc, l)
            return acc
        raise Malformed("operator not in the subset")

    def fixed_binop(self, op, l, r):
        if l.ty != r.ty or op not in (ast.Add, ast.Sub):
            raise Reject("Qfixed arithmetic other than same-type + and -")
        i = l.ty[1]
        ex = l.ex + r.ex if op is ast.Add else l.ex - r.ex
        kk = kmin(l.k, r.k)
        inr = kk is None and 0 <= ex < 2 ** i
        return V(l.ty, ex, ex % 2 ** i, None if inr else 0)

    def compare(self, op, l, r):
        f = CMP_OPS.get(op)
        if f is None and op in (ast.Is, ast.IsNot) and l.const and r.const and l.items is None and r.items is None \
                and l.ty != QCHAR and r.ty != QCHAR:
            # identity of two int / bool constants (CPython: one object per bool and per small int)
            same = type(l.ex) is type(r.ex) and l.ex == r.ex and (isinstance(l.ex, bool) or -5 <= l.ex <= 256)
            return mk_const(same if op is ast.Is else not same)
        if f is None and op in (ast.In, ast.NotIn) and l.const and l.items is None and r.items is not None \
                and all(x.const and x.items is None for x in r.items):
            # membership of a constant in a tuple / list literal of constants
            found = any(x.ex == l.ex for x in r.items)
            return mk_const(found if op is ast.In else not found)
        if f is None:
            raise Malformed("comparator not in the subset")
        if l.const and r.const and l.items is None and r.items is None:
            return mk_const(bool(f(l.ex, r.ex)))
        if l.items is not None or r.items is not None:
            if l.items is None or r.items is None or l.ty != r.ty or op not in (ast.Eq, ast.NotEq):
                raise Malformed("tuple comparison")
            flat_l, flat_r = flatten(l), flatten(r)
            eq = all(a.ex == b.ex for a, b in zip(flat_l, flat_r))
            ks = [x.k for x in flat_l + flat_r]
            return mk_open(BOOL, eq if op is ast.Eq else not eq, ks)
        if l.ty == BOOL and r.ty == BOOL:
            if op not in (ast.Eq, ast.NotEq):
                raise Malformed("ordering of bools")
            return mk_open(BOOL, f(l.ex, r.ex), [l.k, r.k])
        if l.ty[0] == "qint" and r.ty[0] == "qint":
            return mk_open(BOOL, f(l.ex, r.ex), [l.k, r.k])
        if l.ty == QCHAR and (r.ty == QCHAR or r.ty[0] == "qint"):
            if op not in (ast.Eq, ast.NotEq):
                raise Reject("ordering of chars")
            return mk_open(BOOL, f(l.ex, r.ex), [l.k, r.k])
        if l.ty[0] == "qfixed" and l.ty == r.ty:
            return mk_open(BOOL, f(l.ex, r.ex), [l.k, r.k])
        if l.ty[0] == "qfixed" or r.ty[0] == "qfixed":
            raise Reject("mixed Qfixed comparison")
        raise Malformed("comparison of different kinds")

    def index(self, v, i):
        """v[i] with i an exact-or-not index value"""
        if i.ty[0] != "qint" and not (i.const and i.ty == BOOL):
            raise Malformed("index is not an integer")
        if v.items is not None:
            n = len(v.items)
            if i.const:
                if i.ex < 0:
                    raise Reject("negative index")
                if i.ex >= n:
                    raise Malformed("constant index out of range")
                return v.items[i.ex]
            # variable index: the elements must have one type up to widening
            ty = None
            for x in v.items:
                if x.items is not None:
                    ty = x.ty if ty in (None, x.ty) else _bad()
                else:
                    ty = x.ty if ty is None else widen_ty(x.ty, ty)
            if 0 <= i.ex < n:
                ch = v.items[i.ex]
                if ch.items is not None:
                    return ch if i.k is None else undetermined(ch)
                return V(ty, ch.ex, ch.wr, ch.k if i.k is None else 0)
            ch = v.items[-1]
            return undetermined(retag(ch, ty) if ch.items is None else ch)    # IndexError in python
        if v.ty[0] == "qint":
            if not i.const:
                raise Malformed("variable bit index")
            if i.ex < 0:
                raise Reject("negative bit index")
            if i.ex >= v.ty[1]:
                raise Malformed("bit index out of range")
            bit = bool((v.ex >> i.ex) & 1) if v.ex >= 0 else bool((v.ex % 2 ** 64 >> i.ex) & 1)
            det = v.k is None or i.ex < v.k
            return V(BOOL, bit, bool((v.wr >> i.ex) & 1), None if det else 0)
        raise Malformed("subscript of a scalar")

    def ev(self, e, env):
        if isinstance(e, ast.Constant):
            return mk_const(e.value)
        if isinstance(e, ast.Name):
            if e.id.startswith("__"):
                raise Malformed("reserved name")
            if e.id not in env:
                raise Malformed(f"unbound {e.id}")
            return env[e.id]
        if isinstance(e, (ast.Tuple, ast.List)):
            items = [self.ev(x, env) for x in e.elts]
            if not items:
                raise Reject("empty tuple")
            return V(("tuple", tuple(x.ty for x in items)), items=items, const=all(x.const for x in items))
        if isinstance(e, ast.Subscript):
            v = self.ev(e.value, env)
            if isinstance(e.slice, ast.Slice):
                raise Malformed("slice")
            i = self.ev(e.slice, env)
            if not isinstance(e.value, ast.Name) and not isinstance(e.value, ast.Subscript):
                raise Reject("subscript of an expression")
            if isinstance(e.value, ast.Subscript) and not i.const and v.items is not None:
                # m[i][j] with variable indices: ast2ast expands it to one if-chain over (i, j)
                inner = e.value
                if not (isinstance(inner.value, ast.Name) and isinstance(inner.slice, ast.Name)
                        and isinstance(e.slice, ast.Name)):
                    raise Reject("variable index of a computed row")
                m = self.ev(inner.value, env)
                ii = self.ev(inner.slice, env)
                if not ii.const and m.items is not None and all(r.items is not None for r in m.items):
                    rows, cols = len(m.items), len(m.items[0].items)
                    self.events.add("matrix2")
                    if rows != cols:
                        self.events.add("matrixNonSquare")
                    if "matrixMaxJ" in self.quirks and rows < cols:
                        # create_if_exp as called today: max_j is taken from the outer tuple (= rows - 1);
                        # the chain ends in m[rows-1][rows-1]
                        mx = rows - 1
                        if 0 <= ii.ex <= mx and 0 <= i.ex <= mx:
                            ch = m.items[ii.ex].items[i.ex]
                        else:
                            ch = m.items[mx].items[mx]
                        if ch.items is not None:
                            return ch
                        return V(ch.ty, ch.ex, ch.wr, kmin(ch.k, ii.k, i.k) if kmin(ch.k, ii.k, i.k) is None else 0)
            return self.index(v, i)
        if isinstance(e, ast.BoolOp):
            isand = isinstance(e.op, ast.And)
            vals = [self.ev(x, env) for x in e.values]
            for x in vals:
                if x.ty != BOOL or x.items is not None:
                    raise Malformed("and/or on non-bools")
            # python short-circuits: only the operands up to the deciding one are evaluated
            res, ks = None, []
            for x in vals:
                ks.append(x.k)
                res = x.ex
                if res != isand:
                    break
            return V(BOOL, res, None, None if kmin(*ks) is None else 0)
        if isinstance(e, ast.UnaryOp):
            if isinstance(e.op, ast.USub) or isinstance(e.op, ast.UAdd):
                v = self.ev(e.operand, env)
                if v.const and v.ty[0] == "qint":
                    return mk_const(-v.ex if isinstance(e.op, ast.USub) else v.ex)
                raise Malformed("unary minus")
            v = self.ev(e.operand, env)
            if isinstance(e.op, ast.Not):
                if v.const and v.items is None:
                    return mk_const(not v.ex)
                if v.ty != BOOL:
                    raise Malformed("not on a non-bool")
                return V(BOOL, not v.ex, None, v.k)
            if isinstance(e.op, ast.Invert):
                if v.const and v.items is None and v.ty != QCHAR:
                    return mk_const(~int(v.ex))
                if v.ty[0] != "qint":
                    raise Malformed("~ on a non-Qint")
                return mk_int(v.ty, ~v.ex, [v.k])
            raise Malformed("unary operator")
        if isinstance(e, ast.IfExp):
            t = self.ev(e.test, env)
            if t.const and t.items is None:
                return self.ev(e.body if t.ex else e.orelse, env)
            return select(t, self.ev(e.body, env), self.ev(e.orelse, env))
        if isinstance(e, ast.Compare):
            if len(e.ops) != 1:
                # python's meaning of a chain: `a op b and b op c ...`, every operand evaluated at most once, the
                # links after the first false one not at all.  (Outside the documented subset: the library may reject
                # it; if it accepts, this is what the program means.)
                l = self.ev(e.left, env)
                res, ks, allconst = True, [], True
                for op, cm in zip(e.ops, e.comparators):
                    r = self.ev(cm, env)
                    x = self.compare(type(op), l, r)
                    if x.ty != BOOL or x.items is not None:
                        raise Malformed("comparison chain link")
                    allconst = allconst and x.const
                    ks.append(x.k)
                    res = bool(x.ex)
                    if not res:
                        break
                    l = r
                if allconst:
                    return mk_const(res)
                return V(BOOL, res, None, None if kmin(*ks) is None else 0)
            return self.compare(type(e.ops[0]), self.ev(e.left, env), self.ev(e.comparators[0], env))
        if isinstance(e, ast.BinOp):
            return self.binop(type(e.op), self.ev(e.left, env), self.ev(e.right, env))
        if isinstance(e, ast.Call):
            return self.call(e, env)
        raise Malformed("expression form " + type(e).__name__)

    def elements(self, args, env):
        """argument list of len/min/max/sum/all/any: one tuple, or the values themselves"""
        vals = [self.ev(a, env) for a in args]
        if len(vals) == 1 and vals[0].items is not None:
            return vals[0].items
        return vals

    def call(self, e, env):
        if not isinstance(e.func, ast.Name) or e.keywords:
            raise Reject("call form")
        fn = e.func.id
        if fn == "len":
            if len(e.args) != 1:
                raise Malformed("len arity")
            v = self.ev(e.args[0], env)
            if v.items is None:
                raise Malformed("len of a scalar")
            return mk_const(len(v.items))
        if fn in ("min", "max"):
            xs = self.elements(e.args, env)
            if not xs:
                raise Malformed("min/max of nothing")
            if all(x.const for x in xs):
                return mk_const((min if fn == "min" else max)(x.ex for x in xs))
            for x in xs:
                if x.ty[0] != "qint":
                    raise Reject("min/max of non-Qint")
            # iterif: x0 if all(x0 op xi) else iterif(rest)   (max: >, min: <=)
            def it(l):
                if len(l) == 1:
                    return l[0]
                rest = it(l[1:])
                if fn == "max":
                    c = all(l[0].ex > y.ex for y in l[1:])
                else:
                    c = all(l[0].ex <= y.ex for y in l[1:])
                t = V(BOOL, c, None, None if kmin(*[y.k for y in l]) is None else 0)
                return select(t, l[0], rest)
            return it(xs)
        if fn == "sum":
            if len(e.args) != 1:
                raise Malformed("sum arity")
            xs = self.elements(e.args, env)
            if all(x.const for x in xs):
                return mk_const(sum(x.ex for x in xs))
            acc = xs[-1]
            for x in reversed(xs[:-1]):
                acc = self.binop(ast.Add, x, acc)
            return acc
        if fn in ("all", "any"):
            if len(e.args) != 1:
                raise Malformed("all/any arity")
            xs = self.elements(e.args, env)
            for x in xs:
                if x.ty != BOOL:
                    raise Malformed("all/any of non-bools")
            if all(x.const for x in xs):
                return mk_const((all if fn == "all" else any)(x.ex for x in xs))
            res, ks = None, []
            for x in xs:
                ks.append(x.k)
                res = x.ex
                if res != (fn == "all"):
                    break
            return V(BOOL, res, None, None if kmin(*ks) is None else 0)
        if fn == "ord":
            if len(e.args) != 1:
                raise Malformed("ord arity")
            v = self.ev(e.args[0], env)
            if v.ty != QCHAR:
                raise Malformed("ord of a non-char")
            return v
        if fn == "chr":
            if len(e.args) != 1:
                raise Malformed("chr arity")
            v = self.ev(e.args[0], env)
            if v.ty[0] != "qint":
                raise Malformed("chr of a non-int")
            return v
        if fn == "int":
            if len(e.args) != 1:
                raise Malformed("int arity")
            v = self.ev(e.args[0], env)
            if v.ty[0] == "qint":
                return v
            raise Reject("int of " + v.ty[0])
        raise Reject("call of " + fn)

    # ------------------------------------------------------------------ statements
    def assign(self, env, target, v):
        if isinstance(target, ast.Name):
            if target.id.startswith("__"):
                raise Malformed("reserved name")
            if v.items is None and v.const:
                v = V(v.ty, v.ex, v.wr, v.k, False)     # a variable holding a constant is a variable
            elif v.items is not None and v.const:
                v = V(v.ty, items=[V(x.ty, x.ex, x.wr, x.k, False) if x.items is None else x for x in v.items],
                      const=True)                        # list constants stay indexable tables
            env[target.id] = v
        elif isinstance(target, (ast.Tuple, ast.List)):
            if v.items is None or len(v.items) != len(target.elts):
                raise Malformed("unpacking")
            for t, x in zip(target.elts, v.items):
                self.assign(env, t, x)
        else:
            raise Malformed("assignment target")

    def guarded(self, env, guards, stmts):
        """statements of an if branch as guarded assignments.

        `guards` = [(test value, when)], outermost first: the values of the tests of the enclosing
        if statements, each computed ONCE, when python reaches that `if` - before any statement of
        its branches runs (a branch that re-assigns a variable its own test reads does not change
        which branch is running).  A statement takes effect iff every guard holds; the type of the
        variable afterwards is the widening of old and new type (the meaning of an if-expression
        `new if test else old`, nested once per guard - the documented rewriting).

        `elif` / an `if` nested in an else branch: the inner test is evaluated where python evaluates
        it (after the statements before it in that branch), and guards the inner branches together with
        the outer guards.  An `if` nested in the *taken* branch is not given a meaning here (Reject)."""
        for s in stmts:
            if isinstance(s, ast.AugAssign) and isinstance(s.target, ast.Name):
                name = s.target.id
                val = self.binop(type(s.op), self.ev(s.target, env), self.ev(s.value, env))
            elif isinstance(s, ast.Assign) and len(s.targets) == 1 and isinstance(s.targets[0], ast.Name):
                name = s.targets[0].id
                val = self.ev(s.value, env)
            elif isinstance(s, ast.If) and not guards[-1][1]:
                # an if nested in an else branch (elif)
                t2 = self.ev(s.test, env)
                if t2.const and t2.items is None:
                    self.guarded(env, guards, s.body if t2.ex else s.orelse)
                    continue
                if t2.ty != BOOL:
                    raise Malformed("if test is not a bool")
                self.guarded(env, guards + [(t2, True)], s.body)
                self.guarded(env, guards + [(t2, False)], s.orelse)
                continue
            elif isinstance(s, ast.If):
                raise Reject("if nested in the body of an if")
            else:
                raise Reject("statement form in an if body")
            if name not in env:
                raise Reject("variable first assigned under an if")
            old = env[name]
            if val.items is None and val.const:
                val = V(val.ty, val.ex, val.wr, val.k, False)
            for test, when in reversed(guards):
                val = select(test, val, old) if when else select(test, old, val)
            env[name] = val

    def run_block(self, stmts, env):
        for s in stmts:
            if isinstance(s, ast.Return):
                if s.value is None:
                    raise Malformed("bare return")
                return self.ev(s.value, env)
            if isinstance(s, ast.Assign):
                if len(s.targets) != 1:
                    raise Malformed("chained assignment")
                self.assign(env, s.targets[0], self.ev(s.value, env))
            elif isinstance(s, ast.AugAssign):
                if not isinstance(s.target, ast.Name):
                    raise Malformed("augmented assignment target")
                v = self.binop(type(s.op), self.ev(s.target, env), self.ev(s.value, env))
                self.assign(env, s.target, v)
            elif isinstance(s, ast.If):
                t = self.ev(s.test, env)
                if t.const and t.items is None:
                    r = self.run_block(s.body if t.ex else s.orelse, env)
                    if r is not None:
                        return r
                    continue
                if t.ty != BOOL:
                    raise Malformed("if test is not a bool")
                # `t` is a value: the test was evaluated once, above; nothing a branch assigns changes it
                self.guarded(env, [(t, True)], s.body)
                self.guarded(env, [(t, False)], s.orelse)
            elif isinstance(s, ast.For):
                if not isinstance(s.target, ast.Name):
                    raise Malformed("for form")
                it = s.iter
                if isinstance(it, ast.Call) and isinstance(it.func, ast.Name) and it.func.id == "range":
                    args = [self.ev(a, env) for a in it.args]
                    if not all(a.const and a.ty[0] == "qint" for a in args) or not 1 <= len(args) <= 3:
                        raise Malformed("range of non-constants")
                    seq = [mk_const(i) for i in range(*[a.ex for a in args])]
                else:
                    v = self.ev(it, env)
                    if v.items is None:
                        raise Malformed("for over a scalar")
                    seq = v.items
                for x in seq:
                    env[s.target.id] = x
                    r = self.run_block(s.body, env)
                    if r is not None:
                        raise Reject("return inside a loop")
                # the subset has no `break`: python runs the else suite once, after the last iteration
                if s.orelse:
                    r = self.run_block(s.orelse, env)
                    if r is not None:
                        raise Reject("return inside the else suite of a loop")
            elif isinstance(s, ast.Expr):
                continue
            elif isinstance(s, ast.Pass):
                raise Malformed("pass")
            else:
                raise Malformed("statement form " + type(s).__name__)
        return None


def _bad():
    raise Reject("variable index over different tuple types")


def flatten(v):
    if v.items is None:
        return [v]
    out = []
    for x in v.items:
        out += flatten(x)
    return out


def coerce_ret(v, ty):
    """the Return statement: fill or crop a sized value to the declared sized type"""
    if v.items is not None:
        if v.ty != ty:
            raise Malformed("return type mismatch")
        return v
    sv, st = ty_size(v.ty), ty_size(ty)
    if v.ty == ty:
        return v
    if sv is None or st is None or v.ty[0] == "qfixed" or ty[0] == "qfixed":
        raise Malformed("return type mismatch")
    if sv <= st:
        return V(ty, v.ex, v.wr, v.k)
    wr = v.wr % 2 ** st
    if v.k is None and 0 <= v.ex < 2 ** st:
        return V(ty, v.ex, wr, None)
    return V(ty, v.ex, wr, st if v.k is None else min(v.k, st))


class Program:
    def __init__(self, src):
        self.src = src
        tree = ast.parse(src)
        if len(tree.body) != 1 or not isinstance(tree.body[0], ast.FunctionDef):
            raise Reject("not a single function")
        self.fn = tree.body[0]
        a = self.fn.args
        if a.vararg or a.kwarg or a.kwonlyargs or a.defaults or a.posonlyargs:
            raise Malformed("argument form")
        self.args = []
        for x in a.args:
            if x.annotation is None:
                raise Malformed("argument without a type")
            self.args.append((x.arg, parse_ann(x.annotation)))
        if self.fn.returns is None:
            raise Malformed("no return type")
        self.ret = parse_ann(self.fn.returns)
        self.argbits = []
        for n, t in self.args:
            self.argbits += ty_names(n, t)
        self.retbits = ty_names("_ret", self.ret)

    def decode(self, ty, bits):
        """value of type ty from its bits (little-endian ints; Qfixed: integer part LE, then 2^-1, 2^-2, ...)"""
        if ty == BOOL:
            return V(BOOL, bool(bits[0]))
        if ty[0] == "tuple":
            items, p = [], 0
            for t in ty[1]:
                n = ty_bits(t)
                items.append(self.decode(t, bits[p:p + n]))
                p += n
            return V(ty, items=items)
        if ty[0] == "qfixed":
            i = ty[1]
            x = Fraction(sum(1 << k for k in range(i) if bits[k]))
            for k, b in enumerate(bits[i:]):
                if b:
                    x += Fraction(1, 2 ** (k + 1))
            return V(ty, x)
        return V(ty, sum(1 << k for k, b in enumerate(bits) if b))

    def cpython(self, row):
        """the value CPython itself returns for the source text on this row (annotations stripped, Qint
        arguments as plain ints, tuples as tuples), flattened like `flatten`; None when the program is not
        plain python over ints / bools / tuples or raises there.  Used only to cross-check this
        interpreter's exact value `ex` (the statement semantics above is hand-written)."""
        def plain(t):
            return t == BOOL or t[0] == "qint" or (t[0] == "tuple" and all(plain(x) for x in t[1]))

        if not plain(self.ret) or not all(plain(t) for _, t in self.args):
            return None
        if getattr(self, "_pyfun", None) is None:
            fn = ast.parse(self.src).body[0]
            for x in fn.args.args:
                x.annotation = None
            fn.returns = None
            fn.decorator_list = []
            fn.name = "_qv_fn"
            mod = ast.Module(body=[fn], type_ignores=[])
            ast.fix_missing_locations(mod)
            ns = {}
            try:
                exec(compile(mod, "<pysem>", "exec"), ns)     # noqa: S102 - generated / corpus programs only
            except Exception:  # noqa
                return None
            self._pyfun = ns["_qv_fn"]

        def val(v):
            if v.items is not None:
                return tuple(val(x) for x in v.items)
            return v.ex

        def flat(x):
            if isinstance(x, (tuple, list)):
                return [z for y in x for z in flat(y)]
            return [x]

        vals, p = [], 0
        for n, t in self.args:
            k = ty_bits(t)
            vals.append(val(self.decode(t, row[p:p + k])))
            p += k
        try:
            return flat(self._pyfun(*vals))
        except Exception:  # noqa - IndexError, TypeError (a[0] on an int), ZeroDivisionError ...
            return None

    def run(self, row, quirks=()):
        """row: list of bools for self.argbits -> (returned V coerced to the declared type, events)"""
        env, p = {}, 0
        for n, t in self.args:
            k = ty_bits(t)
            env[n] = self.decode(t, row[p:p + k])
            p += k
        it = Interp(quirks)
        r = it.run_block(self.fn.body, env)
        if r is None:
            raise Malformed("no return")
        return coerce_ret(r, self.ret), it.events


def expected_bits(v):
    """[(exact bit or None when nothing is claimed)] for a returned value, in _ret bit order,
    plus the SemW bits"""
    out, wr = [], []
    for x in flatten(v):
        if x.ty == BOOL:
            out.append(bool(x.ex) if x.k is None else None)
            wr.append(bool(x.wr))
        elif x.ty[0] == "qfixed":
            i, f = x.ty[1], x.ty[2]
            val = x.wr
            ip = int(val) % 2 ** i
            fr = val - int(val)
            bits = [bool((ip >> k) & 1) for k in range(i)]
            for k in range(f):
                fr *= 2
                bits.append(fr >= 1)
                fr -= int(fr)
            wr += bits
            out += bits if x.k is None else [None] * (i + f)
        else:
            w = ty_size(x.ty)
            n = w if x.k is None else min(x.k, w)
            e = x.ex % 2 ** w
            out += [bool((e >> k) & 1) if k < n else None for k in range(w)]
            wr += [bool((x.wr >> k) & 1) for k in range(w)]
    return out, wr
