"""C15 - Grover search amplifies exactly the solutions of the predicate.

Always-on search on the real code: for every (n, M) of the property's table (n <= 4 quick,
n <= 6 thorough) several solution sets S (systematic + random), each written in several syntactic
forms (equality chain, negated inequality chain, bit minterms, list-membership loop, interval
comparison, tuple / bool-list / mixed-tuple argument types, `oraclize` of a lookup function and a
target, `Grover(qf, True)`).  For each form a *fresh* qlassf is compiled, `Grover(...)` built, and
the exact output distribution of the real circuit on |0..0> is computed by an own exact integer
state-vector evaluator (every gate used is 1/sqrt2 x an integer matrix), marginalised on the
algorithm's `output_qubits`.  Judged on the code alone (S is the oracle, it is chosen first and
the predicates are generated from it):
  every solution strictly more likely than every non-solution; P(solution) > 1/2; the same
  distribution for every form of one S; `decode_output` of the measured string of x is x in the
  argument type, and the predicate's own Python function holds on it exactly for x in S.
Correspondence with the Lean model (QV.Model.Grover): gate list, qubit count, output qubits and
default iteration count exactly; distribution == the reduced recurrence's rationals exactly;
decode_output == model.
"""
from __future__ import annotations

import importlib
import json
import time
from fractions import Fraction

from . import circ, e2e
from .common import Ctx, Result

LEVEL = "proof"
MAX_SUPPORT = 60000  # basis states carried by the exact evaluator before a case is given up


# ------------------------------------------------------------------ exact evaluator

class TooLarge(Exception):
    pass


def sim_exact(gates_json):
    """exact evaluation on |0..0>: returns (dict basis_index -> int numerator, h) meaning
    amplitude = numerator / sqrt(2)**h.  Basis index bit k = qubit k.  Gates: H, X, Z, CX, CCX,
    MCX, CZ, MCtrl(X|Z), barriers."""
    st = {0: 1}
    h = 0
    for d in gates_json:
        c, w = d["c"], d["w"]
        if c in ("Barrier", "NopGate"):
            continue
        if c in ("X", "CX", "CCX", "MCX"):
            base = "X"
        elif c in ("Z", "CZ"):
            base = "Z"
        elif c == "MCtrl" and d["g"] in ("X", "Z"):
            base = d["g"]
        elif c == "H":
            base = "H"
        else:
            raise ValueError(f"gate {c}/{d.get('g')} is not part of a Grover circuit")
        cm = 0
        for q in w[:-1]:
            cm |= 1 << q
        tm = 1 << w[-1]
        if base == "X":
            st = {((i ^ tm) if (i & cm) == cm else i): a for i, a in st.items()}
        elif base == "Z":
            full = cm | tm
            st = {i: (-a if (i & full) == full else a) for i, a in st.items()}
        else:
            h += 1
            new = {}
            for i, a in st.items():
                i0 = i & ~tm
                i1 = i | tm
                new[i0] = new.get(i0, 0) + a
                new[i1] = new.get(i1, 0) + (-a if i & tm else a)
            st = {i: a for i, a in new.items() if a != 0}
            if len(st) > MAX_SUPPORT:
                raise TooLarge(len(st))
    return st, h


def marginal(st, h, qubits):
    """exact distribution (list of Fraction, index bit k = qubits[k]) over the given qubits"""
    num = [0] * (2 ** len(qubits))
    for i, a in st.items():
        x = 0
        for k, q in enumerate(qubits):
            x |= ((i >> q) & 1) << k
        num[x] += a * a
    den = 2 ** h
    return [Fraction(v, den) for v in num]


def oracle_clean(og, nq, ret, n, S):
    """is `og` a clean xor-oracle of S (classical run on every x and both values of _ret)?"""
    try:
        for x in range(2 ** n):
            for r in (False, True):
                s = [bool((x >> k) & 1) for k in range(n)] + [False] * (nq - n)
                s[ret] = r
                out = circ.run_classical(og, s)
                exp = list(s)
                exp[ret] = r ^ (x in S)
                if out != exp:
                    return False
    except Exception:  # non-classical gate etc.
        return False
    return True


# ------------------------------------------------------------------ case generation

def qint_name(w):
    return f"Qint[{w}]"


def minterm(bitexprs, s):
    return "(" + " and ".join((e if (s >> i) & 1 else f"not {e}") for i, e in enumerate(bitexprs)) + ")"


def forms(n, S):
    """name -> (source, element_to_search or None, arg type json, python-literal of arg type kind)"""
    S = sorted(S)
    N = 2 ** n
    out = {}
    q = ["qint", n]
    hdr = f"def pred(a: Qint[{n}]) -> bool:\n"
    out["eqchain"] = (hdr + "    return " + " or ".join(f"a == {s}" for s in S), None, q)
    out["neqchain"] = (hdr + "    return not (" + " and ".join(f"a != {s}" for s in S) + ")", None, q)
    bits = [f"a[{i}]" for i in range(n)]
    out["minterm"] = (hdr + "    return " + " or ".join(minterm(bits, s) for s in S), None, q)
    out["loop"] = (hdr + f"    h = False\n    for i in {S}:\n        if i == a:\n            h = True\n    return h", None, q)
    if S == list(range(S[0], S[-1] + 1)):
        if S[0] > 0 and S[-1] < N - 1:
            body = f"a > {S[0] - 1} and a < {S[-1] + 1}"
        elif S[0] == 0:
            body = f"a < {S[-1] + 1}"
        else:
            body = f"a > {S[0] - 1}"
        out["interval"] = (hdr + "    return " + body, None, q)
    n1 = n // 2
    n2 = n - n1
    if n1 >= 2:
        t = " or ".join(f"(a[0] == {s & (2 ** n1 - 1)} and a[1] == {s >> n1})" for s in S)
        out["tuple"] = (f"def pred(a: Tuple[Qint[{n1}], Qint[{n2}]]) -> bool:\n    return {t}", None,
                        ["tuple", ["qint", n1], ["qint", n2]])
    if n >= 3:
        t = " or ".join(f"({'a[0]' if s & 1 else 'not a[0]'} and a[1] == {s >> 1})" for s in S)
        out["booltuple"] = (f"def pred(a: Tuple[bool, Qint[{n - 1}]]) -> bool:\n    return {t}", None,
                            ["tuple", ["bool"], ["qint", n - 1]])
    out["qlist"] = (f"def pred(a: Qlist[bool, {n}]) -> bool:\n    return " + " or ".join(minterm(bits, s) for s in S),
                    None, ["tuple"] + [["bool"]] * n)
    lut = [1 if i in S else 0 for i in range(N)]
    out["oraclize-lut"] = (f"def fun(a: Qint[{n}]) -> Qint[2]:\n    l = {lut}\n    return l[a]", ("Qint2", 1), q)
    out["element-true"] = (hdr + "    return " + " or ".join(f"a == {s}" for s in S), True, q)
    # falsy targets: searching g(x) == False / g(x) == 0 is a search like any other
    out["element-false"] = (hdr + "    return " + " and ".join(f"a != {s}" for s in S), False, q)
    lut0 = [0 if i in S else 1 for i in range(N)]
    out["oraclize-zero"] = (f"def fun(a: Qint[{n}]) -> Qint[2]:\n    l = {lut0}\n    return l[a]", ("Qint2", 0), q)
    if len(S) == 1:
        out["oraclize-xor"] = (f"def fun(a: Qint[{n}]) -> Qint[{n}]:\n    return a ^ {S[0] ^ (N - 1)}", (f"Qint{n}", N - 1), q)
    return out


def value_json(tj, x):
    """the value whose encoding is the basis index x (bit k = qubit k), in the JSON of c09"""
    k = tj[0]
    if k == "bool":
        return {"b": bool(x & 1)}
    if k == "qint":
        return {"i": x & (2 ** tj[1] - 1)}
    out = []
    off = 0
    from .c09 import ty_size

    for sub in tj[1:]:
        out.append(value_json(sub, x >> off))
        off += ty_size(sub)
    return {"t": out}


def value_py(vj, T, tj):
    """python value to feed the predicate's original function"""
    if "b" in vj:
        return vj["b"]
    if "i" in vj:
        return vj["i"]
    return tuple(value_py(v, T, t) for v, t in zip(vj["t"], tj[1:]))


def solution_sets(n, M, rng, n_random):
    N = 2 ** n
    sets = [list(range(M)), list(range(N - M, N))]
    mid = min(3, N - M)
    sets.append(list(range(mid, mid + M)))
    step = N // M
    sets.append([(1 + i * step) % N for i in range(M)])
    for _ in range(n_random):
        sets.append(sorted(rng.sample(range(N), M)))
    uniq = []
    for s in sets:
        s = sorted(set(s))
        if len(s) == M and s not in uniq:
            uniq.append(s)
    return uniq


# ------------------------------------------------------------------ the listed defect (or2xor)

FINDING_OR2XOR = "C15-or2xor-oracle"
_or2xor_log = None  # list of (e_in, e_out) while a build() is recording
_or2xor_depth = 0


def install_or2xor_probe():
    """wrap transform_or2xor.visit *from the harness process* to see the step's top-level input
    and output (no change of behaviour)"""
    et = importlib.import_module("qlasskit.boolopt.exp_transformers")
    cls = et.transform_or2xor
    if getattr(cls, "_qv_probe", False):
        return
    # SympyTransformer.visit is inherited; give the subclass its own recording wrapper
    base_visit = cls.visit

    def visit(self, e):
        global _or2xor_depth
        _or2xor_depth += 1
        try:
            out = base_visit(self, e)
        finally:
            _or2xor_depth -= 1
        if _or2xor_depth == 0 and _or2xor_log is not None:
            _or2xor_log.append((e, out))
        return out

    cls.visit = visit
    cls._qv_probe = True


def or2xor_attribution(ctx, rec, D):
    """Is this failing case exactly the listed defect?  (1) the or2xor step changed the meaning of
    an expression of this predicate; (2) the quirk-model of the step reproduces every output of the
    step (and the repaired model keeps the meaning); (3) the real circuit's distribution is exactly
    the recurrence's prediction for the solution set of the *quirk-model's* rewritten predicate."""
    from . import bexp

    f = next((f for f in ctx.findings if f["id"] == FINDING_OR2XOR), None)
    if f is None or f.get("status", "open") != "open" or not f.get("_active"):
        return False
    log = rec.get("or2xor_log") or []
    if not log:
        return False
    try:
        pairs = [(bexp.to_json(a), bexp.to_json(b)) for a, b in log]
    except ValueError:
        return False
    reqs = []
    for a, _ in pairs:
        reqs.append(dict(op="c15.or2xor", e=a, quirks=["or2xorNoArity"]))
        reqs.append(dict(op="c15.or2xor", e=a, quirks=[]))
    rep = ctx.model(reqs)
    if rep is None:
        return False
    misfire = False
    model_outs = []
    for i, (a, b) in enumerate(pairs):
        names = sorted(set(bexp.syms_json(a)) | set(bexp.syms_json(b)))
        if len(names) > 12:
            return False
        mq, m0 = rep[2 * i].get("out"), rep[2 * i + 1].get("out")
        if mq is None or m0 is None:
            return False
        if not set(bexp.syms_json(mq)) <= set(names):
            return False
        t_in, t_out, t_mq, t_m0 = (bexp.truth_table(names, [x]) for x in (a, b, mq, m0))
        if t_mq != t_out or t_m0 != t_in:
            return False  # the model does not reproduce the step -> not this finding
        if t_in != t_out:
            misfire = True
        model_outs.append(mq)
    if not misfire:
        return False
    # solution set of the rewritten predicate: the oracle's definitions, in order, each through the model
    oracle = rec["g"].oracle
    exprs = list(oracle.expressions)
    argbits = list(oracle.args[0].bitvec)
    n = rec["n"]
    if len(argbits) != n:
        return False
    # the logged pairs of the oracle's own compilation are the last len(exprs) ones
    if len(model_outs) < len(exprs):
        return False
    defs = model_outs[-len(exprs):]
    Sq = []
    for x in range(2 ** n):
        env = {nm: bool((x >> i) & 1) for i, nm in enumerate(argbits)}
        for (sym, _), e in zip(exprs, defs):
            env[sym.name] = bexp.eval_json(e, env)
        if env.get("_ret"):
            Sq.append(x)
    rp = ctx.model([dict(op="c15.predict", n=n, M=len(Sq), k=rec["k"])])
    if rp is None or not rp[0].get("d"):
        return False
    ps, pn = Fraction(rp[0]["ps"], rp[0]["d"]), Fraction(rp[0]["pn"], rp[0]["d"])
    return all(D[x] == (ps if x in Sq else pn) for x in range(2 ** n))


# ------------------------------------------------------------------ one case on the real code

PROFILES = ("default", "fast")  # the two optimizer profiles the library ships


def profile_obj(profile):
    from qlasskit import boolopt

    return {"default": boolopt.defaultOptimizer, "fast": boolopt.fastOptimizer}[profile or "default"]


def build(src, element, M, k=None, profile="default"):
    """fresh qlassf (compiled under the optimizer profile `profile`) -> (record of everything observed on the real code)"""
    from qlasskit import qlassf
    from qlasskit.algorithms import Grover
    from qlasskit.algorithms.qalgorithm import oraclize
    import qlasskit.types as T

    global _or2xor_log
    install_or2xor_probe()
    el = element
    if isinstance(element, tuple):
        el = getattr(T, element[0])(element[1])
    # the oracle the constructor will use, compiled independently from a fresh qlassf
    with e2e.ChoiceLog() as chlog:
        qf0 = qlassf(src, bool_optimizer=profile_obj(profile))
        oracle0 = oraclize(qf0, el) if el is not None else qf0
    oc = oracle0.circuit()
    e2e_req = e2e.request(oracle0, chlog)
    og = circ.qc_to_json(oc)
    for d in og:
        d["id"] = 0
    nq, ret = oc.num_qubits, oc["_ret"]
    # the algorithm, from another fresh qlassf
    _or2xor_log = []
    try:
        qf = qlassf(src, bool_optimizer=profile_obj(profile))
        orig = qf.original_f
        if k is None:
            g = Grover(qf, el, n_matching=M)
        else:
            g = Grover(qf, el, n_iterations=k, n_matching=M)
        log = _or2xor_log
    finally:
        _or2xor_log = None
    qc = g.circuit()
    gl = circ.qc_to_json(qc)
    for d in gl:
        d["id"] = 0
    return dict(g=g, og=og, nq=nq, ret=ret, gates=gl, num_qubits=qc.num_qubits,
                output_qubits=list(g.output_qubits), k=g.n_iterations, n=g.search_space_size,
                orig=orig, element=el, or2xor_log=log, e2e_req=e2e_req)


def check_case(ctx, res, case, rec, S, tj, pending, dist_by_S, default_k):
    """property on the code + queue the model requests"""
    from .c09 import code_val_to_json
    import qlasskit.types as T

    n = rec["n"]
    N = 2 ** n
    M = len(S)
    g = rec["g"]
    # ---- exact distribution of the real circuit
    try:
        st, h = sim_exact(rec["gates"])
    except TooLarge:
        res.histogram["skipped-too-large"] = res.histogram.get("skipped-too-large", 0) + 1
        return
    except ValueError as e:
        res.violation(case, f"Grover circuit cannot be evaluated: {e}")
        return
    outq = rec["output_qubits"]
    if len(outq) != n or len(set(outq)) != n or any(q >= rec["num_qubits"] for q in outq):
        res.violation(case, "output_qubits is not a list of n distinct qubits of the circuit", code=outq)
        return
    D = marginal(st, h, outq)
    Df = [float(p) for p in D]
    failed = None
    if default_k:
        psol_min = min(D[s] for s in S)
        pnon_max = max(D[x] for x in range(N) if x not in S)
        succ = sum(D[s] for s in S)
        if not psol_min > pnon_max:
            failed = "a non-solution is at least as likely as a solution"
        elif not succ > Fraction(1, 2):
            failed = f"a solution is measured with probability {float(succ):.6f} <= 1/2"
    if failed is None and (len({D[s] for s in S}) > 1 or len({D[x] for x in range(N) if x not in S}) > 1):
        # (any iteration count) the circuit cannot tell two solutions, or two non-solutions, apart
        failed = "output distribution is not constant on the solution set and on its complement"
    key = (n, tuple(S), rec["k"])
    if failed is None:
        if key in dist_by_S and dist_by_S[key][0] != D:
            failed = f"output distribution differs from the one of form '{dist_by_S[key][1]}' of the same solution set"
        else:
            dist_by_S.setdefault(key, (D, case["form"]))
    attributed = False
    if failed and or2xor_attribution(ctx, rec, D):
        attributed = True
        res.known(FINDING_OR2XOR)
    elif failed:
        dg = rec.get("diag_oracle") or (rec["og"], rec["nq"], rec["ret"])  # (history steps: the oracle inside THIS object)
        clean = oracle_clean(dg[0], dg[1], dg[2], n, set(S))
        res.violation(case, failed, code=dict(distribution=Df, iterations=rec["k"], oracle_is_clean_xor_oracle=clean),
                      expected="every solution more likely than every non-solution, success > 1/2, same distribution for every form")
    # ---- decoding
    dec_code = {}
    for x in range(N):
        bs = format(x, f"0{n}b")
        exp = value_json(tj, x)
        try:
            got = g.decode_output(bs)
            gj = code_val_to_json(tj, got)
        except Exception as e:  # noqa
            res.violation(case, f"decode_output({bs!r}) raised {type(e).__name__}: {e}")
            break
        dec_code[bs] = gj
        if gj != exp:
            res.violation(case, f"decode_output({bs!r}) is not the value encoded by that string", code=gj, expected=exp)
            break
        # the predicate's own Python function on the decoded value
        try:
            if rec["orig"] is None:  # (history functions whose Python arithmetic is not the modular one)
                raise TypeError
            r = rec["orig"](value_py(exp, T, tj))
            holds = (r == rec["element"]) if rec["element"] is not None else bool(r)
        except Exception as e:  # noqa
            holds = None
        if holds is not None and holds != (x in S):
            res.violation(case, f"decoded value of {bs!r}: original predicate gives {holds}, solution set says {x in S}")
            break
    # ---- model requests
    pending.append(dict(case=case, rec=rec, S=S, tj=tj, D=D, dec=dec_code, default_k=default_k, attributed=attributed))


_tally = e2e.Tally()


def flush(ctx, res, pending):
    if not pending:
        return
    reqs = []
    for p in pending:
        rec = p["rec"]
        n, M = rec["n"], len(p["S"])
        reqs.append(dict(op="c15.gates", n=n, og=rec["og"], nq=rec["nq"], ret=rec["ret"], k=rec["k"]))
        reqs.append(dict(op="c15.kdefault", n=n, M=M))
        reqs.append(dict(op="c15.predict", n=n, M=M, k=rec["k"]))
        for bs in p["dec"]:
            reqs.append(dict(op="c15.decode", ty=p["tj"], out=bs))
        if rec.get("e2e_req") is not None:
            reqs.append(rec["e2e_req"])
    replies = ctx.model(reqs)
    if replies is None:
        pending.clear()
        return
    i = 0
    for p in pending:
        rec, case = p["rec"], p["case"]
        rg, rk, rp = replies[i], replies[i + 1], replies[i + 2]
        i += 3
        rdec = replies[i:i + len(p["dec"])]
        i += len(p["dec"])
        n = rec["n"]
        # ---- is this instance covered end to end by C15_end_to_end_fragment?
        form = case.get("form") if isinstance(case, dict) else None
        if rec.get("e2e_req") is None:
            _tally.add("no-form", form)
        else:
            status, detail = e2e.verdict(replies[i], rec["og"], rec["nq"], [rec["ret"]])
            i += 1
            _tally.add(status, form)
            if status == "mismatch":
                res.disagree(case, "oracle definition list is in the class of an end-to-end theorem but the compiler model run on the "
                             "logged ancilla choices does not reproduce the oracle circuit of this instance", **detail)
        if "driver_error" in rg or rg.get("gates") != rec["gates"]:
            mg = rg.get("gates") or []
            first = next((j for j, (a, b) in enumerate(zip(mg, rec["gates"])) if a != b), min(len(mg), len(rec["gates"])))
            res.disagree(case, f"gate list of Grover(...) differs from the model at index {first}",
                         code=dict(length=len(rec["gates"]), gate=rec["gates"][first:first + 1]),
                         model=dict(length=len(mg), gate=mg[first:first + 1], error=rg.get("driver_error")))
            continue
        if rg.get("num_qubits") != rec["num_qubits"] or rg.get("output_qubits") != rec["output_qubits"]:
            res.disagree(case, "num_qubits / output_qubits differ from the model",
                         code=dict(num_qubits=rec["num_qubits"], output_qubits=rec["output_qubits"]),
                         model=dict(num_qubits=rg.get("num_qubits"), output_qubits=rg.get("output_qubits")))
            continue
        if p["default_k"] and (rk.get("k") != rec["k"] or rk.get("k_lo") != rec["k"]):
            res.disagree(case, "default iteration count differs from the model", code=rec["k"], model=rk)
            continue
        d = rp.get("d")
        if not d:
            res.disagree(case, "model gave no prediction", code=None, model=rp)
            continue
        ps, pn = Fraction(rp["ps"], d), Fraction(rp["pn"], d)
        S = set(p["S"])
        bad = [x for x in range(2 ** n) if p["D"][x] != (ps if x in S else pn)]
        if bad and not p["attributed"]:  # an attributed case was matched against the quirk-model's set instead
            x = bad[0]
            res.disagree(case, f"exact probability of outcome {x} differs from the reduced model's prediction",
                         code=dict(p=float(p["D"][x]), distribution=[float(v) for v in p["D"]]),
                         model=dict(p_solution=float(ps), p_non_solution=float(pn), k=rec["k"]))
            continue
        for (bs, gj), r in zip(p["dec"].items(), rdec):
            if r.get("value") != gj:
                res.disagree(case, f"decode_output({bs!r}) differs from the model", code=gj, model=r)
                break
    pending.clear()


def validate_evaluator(ctx, res):
    """the exact evaluator against harness/circ.py's (qiskit-validated) state-vector simulator"""
    rng = ctx.rng
    kinds = ["X", "CX", "CCX", "MCX", "H", "Z", "CZ", "MCtrlZ", "MCtrlX", "Barrier"]
    for t in range(40):
        n = rng.randint(2, 5)
        gl = circ.rand_circuit(rng, n, rng.randint(3, 25), kinds=kinds)
        sv = circ.run_sv(n, gl)
        st, h = sim_exact(gl)
        for i in range(2 ** n):
            a = st.get(i, 0) / (2 ** (h / 2))
            if abs(a - sv[i]) > 1e-9:
                raise RuntimeError(f"exact evaluator disagrees with circ.run_sv on {json.dumps(gl)}")


# ------------------------------------------------------------------ run

def table(nmax):
    return [(n, M) for n in range(2, nmax + 1) for M in range(1, 2 ** n // 4 + 1)]


def run_one(ctx, res, n, M, S, name, spec, pending, dist_by_S, k=None, profile="default"):
    src, element, tj = spec
    case = dict(n=n, M=M, S=list(S), form=name, source=src,
                element=(list(element) if isinstance(element, tuple) else element), iterations=k)
    if profile != "default":  # (default-profile cases keep the case identity they always had)
        case["profile"] = profile
    res.count(case, nontrivial=True, bucket=f"n{n}-{name}" + ("" if k is None else "-k") + ("" if profile == "default" else f"-{profile}"))
    res.histogram[f"profile-{profile}"] = res.histogram.get(f"profile-{profile}", 0) + 1
    try:
        rec = build(src, element, M, k, profile)
    except Exception as e:  # noqa
        res.violation(case, f"Grover construction raised {type(e).__name__}: {e}")
        return
    if rec["n"] != n:
        res.violation(case, "search_space_size is not the width of the argument", code=rec["n"])
        return
    check_case(ctx, res, case, rec, S, tj, pending, dist_by_S, default_k=(k is None))


# ------------------------------------------------------------------ histories on shared objects

def zero_ids(gl):
    for d in gl:
        d["id"] = 0
    return gl


def hist_functions(n, rng=None):
    """functions with several searchable targets: name -> dict(source, tj, python (do Python's own semantics agree
    with the modular ones?), targets=[(element, S)] sorted by |S|).  The solution sets are computed here, from the
    table / the arithmetic the source was written from - never from the library."""
    N = 2 ** n
    q = ["qint", n]
    out = {}

    def targets(val, ty, ys):
        t = []
        for y in ys:
            S = [x for x in range(N) if val(x) == y]
            if 1 <= len(S) < N:
                t.append(([ty, y], S))
        return sorted(t, key=lambda e: (len(e[1]), e[0][1]))

    if rng is None:
        lut = {2: [2, 0, 3, 1], 3: [1, 0, 3, 2, 2, 3, 0, 1], 4: [3, 1, 3, 2, 3, 0, 2, 3, 3, 1, 3, 2, 3, 3, 2, 3]}[n]
        lut2 = list(reversed(lut))
        c = {2: 1, 3: 3, 4: 5}[n]
        cx = {2: 2, 3: 5, 4: 9}[n]
    else:
        few = [0, 1, 2] if n > 2 else [0, 1, 2, 3]
        lut = [rng.choice(few) if rng.random() < 0.45 else 3 for _ in range(N)]
        for y, at in zip(rng.sample([0, 1, 2], 2), rng.sample(range(N), 2)):  # at least two values present: never constant
            lut[at] = y
        lut2 = [rng.randrange(4) for _ in range(N)]
        lut2[0] = (lut2[1] + 1 + rng.randrange(3)) % 4
        c = rng.randrange(1, N)
        cx = rng.randrange(1, N)
    for nm, l in (("lut", lut), ("lut2", lut2)):
        out[nm] = dict(source=f"def fun(a: Qint[{n}]) -> Qint[2]:\n    l = {l}\n    return l[a]", tj=q, python=True,
                       targets=targets(lambda x, l=l: l[x], "Qint2", range(4)))
    out["add"] = dict(source=f"def fun(a: Qint[{n}]) -> Qint[{n}]:\n    return a + {c}", tj=q, python=False,
                      targets=targets(lambda x: (x + c) % N, f"Qint{n}", range(N)))
    out["xor"] = dict(source=f"def fun(a: Qint[{n}]) -> Qint[{n}]:\n    return a ^ {cx}", tj=q, python=True,
                      targets=targets(lambda x: x ^ cx, f"Qint{n}", range(N)))
    # the wrapped function is called like the oracle `oraclize` builds
    out["named-oracle"] = dict(source=f"def oracle(a: Qint[{n}]) -> Qint[2]:\n    l = {lut}\n    return l[a]", tj=q, python=True,
                               targets=targets(lambda x: lut[x], "Qint2", range(4)))
    if n == 4:
        l4 = [0, 1, 2, 0]
        out["pair"] = dict(source="def fun(ii: Tuple[Qint[2], Qint[2]]) -> Qint[2]:\n    l = [0, 1, 2, 0]\n    return l[ii[0]] + l[ii[1]]",
                           tj=["tuple", ["qint", 2], ["qint", 2]], python=True,
                           # (2, 2) sums to 4: not a solution of y = 1, 2, 3 whether the sum wraps or not; y = 0 is left out
                           targets=targets(lambda x: l4[x & 3] + l4[x >> 2], "Qint2", (1, 2, 3)))
    return out


def _fix_k(n, st, rng=None):
    """a step whose solution set is outside the property's range 4M <= N gets an explicit iteration count (the exact
    distribution is then judged against the recurrence, which holds for every M and k >= 1)"""
    if st["op"] == "grover" and st.get("k") is None and 4 * len(st["S"]) > 2 ** n:
        st["k"] = 1 if rng is None else rng.choice((1, 2))
    return st


def systematic_histories(n):
    """the seed-independent slice: see docs/notes/C15.md (Histories)"""
    F = hist_functions(n)
    N = 2 ** n
    S1 = [N - 2]
    pf = forms(n, S1)
    hs = []

    def H(kind, objects, steps, profile="default"):
        objs = {}
        for name, fam in objects.items():
            if fam in F:
                objs[name] = dict(source=F[fam]["source"], tj=F[fam]["tj"], python=F[fam]["python"], profile=profile)
            else:  # a predicate form of the set S1
                objs[name] = dict(source=pf[fam][0], tj=pf[fam][2], python=True, profile=profile)
        hs.append(dict(kind=kind, n=n, objects=objs, steps=[_fix_k(n, dict(st)) for st in steps]))

    def G(obj, fam, ti, k=None):
        t = F[fam]["targets"]
        el, S = t[ti % len(t)]
        return dict(op="grover", obj=obj, element=el, S=S, k=k)

    def O(obj, fam, ti, oname="oracle", save=None):
        t = F[fam]["targets"]
        el, S = t[ti % len(t)]
        return dict(op="oraclize", obj=obj, element=el, S=S, oname=oname, save=save)

    def P(obj, element=None, k=None):  # the predicate of S1; element False searches the complement
        S = S1 if element in (None, True) else [x for x in range(N) if x not in S1]
        return dict(op="grover", obj=obj, element=element, S=S, k=k)

    fams = ["lut", "add", "xor"] + (["pair"] if n == 4 else [])
    for fam in fams:
        o = {"g": fam}
        H(f"targets2-{fam}", o, [G("g", fam, 0), G("g", fam, 1)])
        H(f"targets3-{fam}", o, [G("g", fam, 0), G("g", fam, 1), G("g", fam, 2)])
        H(f"same-twice-{fam}", o, [G("g", fam, 1), G("g", fam, 1)])
        H(f"aba-{fam}", o, [G("g", fam, 1), G("g", fam, 0), G("g", fam, 1)])
    H("targets3-lut-fast", {"g": "lut"}, [G("g", "lut", 0), G("g", "lut", 1), G("g", "lut", 2)], profile="fast")
    H("targets2-add-fast", {"g": "add"}, [G("g", "add", 2), G("g", "add", 0)], profile="fast")
    H("targets2-named-oracle", {"g": "named-oracle"}, [G("g", "named-oracle", 0), G("g", "named-oracle", 1), G("g", "named-oracle", 0)])
    H("explicit-k-lut", {"g": "lut"}, [G("g", "lut", 0, k=1), G("g", "lut", 1, k=2), G("g", "lut", 0, k=2), G("g", "lut", 1)])
    # an oracle built by `oraclize` directly, then through Grover (and the other way round); the returned oracle object
    # itself as the predicate of a Grover
    H("oraclize-then-grover", {"g": "lut"}, [O("g", "lut", 0, save="o0"), G("g", "lut", 1), G("g", "lut", 0), O("g", "lut", 1),
                                             G("o0", "lut", 0), O("g", "lut", 0)])
    H("grover-then-oraclize", {"g": "add"}, [G("g", "add", 0), O("g", "add", 1, save="o1"), O("g", "add", 0), G("o1", "add", 1),
                                             G("g", "add", 1)])
    H("oraclize-names", {"g": "lut"}, [O("g", "lut", 0, oname="orc"), O("g", "lut", 1, oname="orc"), O("g", "lut", 1), G("g", "lut", 0),
                                       O("g", "lut", 0, oname="fun")])
    # two function objects (same name, same argument type, same target literals), searched in two orders
    two = {"g": "lut", "h": "lut2"}
    H("two-functions-order-A", two, [G("g", "lut", 0), G("h", "lut2", 0), G("g", "lut", 1), G("h", "lut2", 1)])
    H("two-functions-order-B", {"h": "lut2", "g": "lut"}, [G("h", "lut2", 1), G("g", "lut", 1), G("h", "lut2", 0), G("g", "lut", 0)])
    H("two-functions-same-target", {"g": "lut", "h": "named-oracle", "e": "lut2"},
      [G("g", "lut", 0), G("h", "named-oracle", 0), G("e", "lut2", 0), G("g", "lut", 0)])
    # the same predicate object for several Grover objects
    H("predicate-twice", {"p": "eqchain"}, [P("p"), P("p"), P("p", k=2), P("p", True), P("p", False, k=1), P("p")])
    H("predicate-twice-fast", {"p": "minterm"}, [P("p"), P("p", True), P("p")], profile="fast")
    H("two-predicates", {"p": "eqchain", "r": "neqchain"}, [P("p"), P("r"), P("r", True), P("p", False, k=2), P("r")])
    # interleaved with the other algorithm objects on the same function, where the types allow
    H("interleaved-predicate", {"p": "minterm"}, [dict(op="dj", obj="p"), P("p"), dict(op="bv", obj="p"), P("p", True),
                                                    dict(op="simon", obj="p"), P("p", False, k=1), P("p")])
    H("interleaved-function", {"g": "xor"}, [G("g", "xor", 0), dict(op="simon", obj="g"), G("g", "xor", 1), O("g", "xor", 2),
                                              dict(op="simon", obj="g"), G("g", "xor", 0)])
    return hs


def random_history(n, rng, idx):
    F = hist_functions(n, rng)
    fam = rng.choice(["lut", "lut", "add", "xor"] + (["pair"] if n == 4 else []))
    fam2 = rng.choice(["lut2", "named-oracle"])
    profile = "fast" if rng.random() < 0.3 else "default"
    objs = {nm: dict(source=F[f]["source"], tj=F[f]["tj"], python=F[f]["python"], profile=profile) for nm, f in (("g", fam), ("h", fam2))}
    fam_of = {"g": fam, "h": fam2}
    steps, saved = [], []
    for _ in range(rng.randint(3, 5)):
        r = rng.random()
        obj = "g" if rng.random() < 0.75 else "h"
        t = F[fam_of[obj]]["targets"]
        el, S = rng.choice(t)
        if r < 0.65:
            steps.append(dict(op="grover", obj=obj, element=el, S=S, k=rng.choice((None, None, 1, 2))))
        elif r < 0.8:
            sv = f"o{len(saved)}"
            saved.append((sv, el, S))
            steps.append(dict(op="oraclize", obj=obj, element=el, S=S, oname=rng.choice(("oracle", "oracle", "orc")), save=sv))
        elif r < 0.9 and saved:
            sv, el, S = rng.choice(saved)
            steps.append(dict(op="grover", obj=sv, element=el, S=S, k=None))
        else:
            steps.append(dict(op="simon", obj=obj))
    if not any(s["op"] == "grover" for s in steps):
        el, S = rng.choice(F[fam]["targets"])
        steps.append(dict(op="grover", obj="g", element=el, S=S, k=None))
    return dict(kind=f"random-{idx}", n=n, objects=objs, steps=[_fix_k(n, s, rng) for s in steps])


def reference(refs, src, elj, M, k, profile):
    """what fresh objects give for (source, target, parameters): `build` compiles the oracle from one fresh qlassf and the
    Grover from another; kept per distinct request"""
    key = json.dumps([src, elj, M, k, profile])
    okey = json.dumps([src, elj, profile])
    if k == "oracle-only":  # (an oraclize step needs the fresh oracle only: any fresh build of this source / target will do)
        if okey in refs:
            return refs[okey]
        k = 1
        key = json.dumps([src, elj, M, k, profile])
    if key not in refs:
        refs[key] = build(src, tuple(elj) if isinstance(elj, list) else elj, M, k, profile)
        refs.setdefault(okey, refs[key])
    return refs[key]


def first_diff(a, b):
    return next((j for j, (x, y) in enumerate(zip(a, b)) if x != y), min(len(a), len(b)))


def run_history(ctx, res, hist, pending, dist_by_S, refs, fresh_jobs=None):
    """one history: the objects are built once, the steps run in order on them, in this process.  Every Grover step is
    a case of its own (the whole history is part of the case, the replay re-runs it from the start)."""
    from qlasskit import qlassf
    from qlasskit.algorithms import BernsteinVazirani, DeutschJozsa, Grover, Simon
    from qlasskit.algorithms.qalgorithm import oraclize
    import qlasskit.types as T

    n = hist["n"]
    N = 2 ** n
    objs, meta, snap = {}, {}, {}
    for name, o in hist["objects"].items():
        objs[name] = qlassf(o["source"], bool_optimizer=profile_obj(o.get("profile")))
        meta[name] = dict(o, element=None)
        snap[name] = zero_ids(circ.qc_to_json(objs[name].circuit()))
    kind = hist["kind"].split("-fast")[0]
    bucket = "hist-" + ("random" if kind.startswith("random") else kind)
    for i, st in enumerate(hist["steps"]):
        if st["obj"] not in meta:  # a saved oracle whose oraclize step failed (reported there)
            continue
        m = meta[st["obj"]]
        src, profile, tj = m["source"], m.get("profile", "default"), m["tj"]
        case = dict(n=n, form="history", history=hist, step=i, source=src, profile=profile)
        if st["op"] in ("dj", "bv", "simon"):
            cls = dict(dj=DeutschJozsa, bv=BernsteinVazirani, simon=Simon)[st["op"]]
            res.count(case, nontrivial=True, bucket=f"hist-step-{st['op']}")
            try:
                fresh = zero_ids(circ.qc_to_json(cls(qlassf(src, bool_optimizer=profile_obj(profile))).circuit()))
            except Exception:  # noqa  (types do not allow this algorithm on this function)
                continue
            try:
                got = zero_ids(circ.qc_to_json(cls(objs[st["obj"]]).circuit()))
            except Exception as e:  # noqa
                res.violation(case, f"step {i}: {cls.__name__} on the shared function raised {type(e).__name__}: {e} (fresh objects do not)")
                continue
            if got != fresh:
                j = first_diff(got, fresh)
                res.violation(case, f"step {i}: the {cls.__name__} circuit built on the shared function is not the one a fresh function gives",
                              code=dict(length=len(got), gate=got[j:j + 1]), expected=dict(length=len(fresh), gate=fresh[j:j + 1]))
            continue
        # the target of this step: the step's own one, or (a saved oracle used as a predicate) the one it was built for
        elj = st["element"] if m["element"] is None else m["element"]
        pred_el = None if m["element"] is not None else elj   # what is handed to Grover / oraclize at this step
        S = sorted(st["S"])
        M = len(S)
        k = st.get("k")
        case.update(M=M, S=S, element=elj, iterations=k, op=st["op"])
        el = getattr(T, pred_el[0])(pred_el[1]) if isinstance(pred_el, list) else pred_el
        res.count(case, nontrivial=True, bucket=bucket + ("-oraclize" if st["op"] == "oraclize" else ""))
        res.histogram[f"profile-{profile}"] = res.histogram.get(f"profile-{profile}", 0) + 1
        try:
            ref = reference(refs, src, elj, M, k if st["op"] == "grover" else "oracle-only", profile)
        except Exception as e:  # noqa
            res.violation(case, f"step {i}: construction on fresh objects raised {type(e).__name__}: {e}")
            continue
        if st["op"] == "oraclize":
            try:
                o = oraclize(objs[st["obj"]], el, name=st.get("oname", "oracle"))
                oc = o.circuit()
                og = zero_ids(circ.qc_to_json(oc))
                nq, ret = oc.num_qubits, oc["_ret"]
            except Exception as e:  # noqa
                res.violation(case, f"step {i}: oraclize raised {type(e).__name__}: {e}")
                continue
            if st.get("save"):
                objs[st["save"]] = o
                meta[st["save"]] = dict(m, element=elj)
                snap[st["save"]] = og
            if not oracle_clean(og, nq, ret, n, set(S)):
                flips = None
                try:
                    flips = [x for x in range(N) if circ.run_classical(
                        og, [bool((x >> b) & 1) for b in range(n)] + [False] * (nq - n))[ret]]
                except Exception:  # noqa
                    pass
                res.violation(case, f"step {i}: the oracle returned by oraclize is not a clean xor-oracle of the solution set of this target",
                              code=dict(inputs_on_which_ret_is_set=flips, num_qubits=nq), expected=dict(solution_set=S))
            elif st.get("oname", "oracle") == "oracle" and (og, nq, ret) != (ref["og"], ref["nq"], ref["ret"]):
                j = first_diff(og, ref["og"])
                res.violation(case, f"step {i}: the oracle returned by oraclize is not the one fresh objects give",
                              code=dict(length=len(og), gate=og[j:j + 1], num_qubits=nq, ret=ret),
                              expected=dict(length=len(ref["og"]), gate=ref["og"][j:j + 1], num_qubits=ref["nq"], ret=ref["ret"]))
            continue
        try:
            if k is None:
                g = Grover(objs[st["obj"]], el, n_matching=M)
            else:
                g = Grover(objs[st["obj"]], el, n_iterations=k, n_matching=M)
            qc = g.circuit()
            gl = zero_ids(circ.qc_to_json(qc))
        except Exception as e:  # noqa
            res.violation(case, f"step {i}: Grover construction raised {type(e).__name__}: {e} (fresh objects do not)")
            continue
        try:
            doc = g.oracle.circuit()
            diag = (zero_ids(circ.qc_to_json(doc)), doc.num_qubits, doc["_ret"])
        except Exception:  # noqa
            diag = None
        rec = dict(ref, diag_oracle=diag, g=g, gates=gl, num_qubits=qc.num_qubits, output_qubits=list(g.output_qubits), k=g.n_iterations,
                   n=g.search_space_size, or2xor_log=None, orig=(ref["orig"] if m.get("python", True) else None))
        if rec["n"] != n:
            res.violation(case, "search_space_size is not the width of the argument", code=rec["n"])
            continue
        nv = len(res.violations)
        # (1) the per-instance oracle: exact distribution against the solution set of THIS step's predicate / target
        check_case(ctx, res, case, rec, S, tj, pending, dist_by_S, default_k=(k is None))
        # (2) == what fresh objects give
        if gl != ref["gates"] or rec["num_qubits"] != ref["num_qubits"] or rec["k"] != ref["k"]:
            j = first_diff(gl, ref["gates"])
            res.violation(case, f"step {i}: the Grover circuit built at this point of the history is not the one fresh objects give "
                          "for the same source, target and parameters" + (" (its distribution was judged above)" if len(res.violations) > nv else ""),
                          code=dict(length=len(gl), index=j, gate=gl[j:j + 1], num_qubits=rec["num_qubits"], iterations=rec["k"]),
                          expected=dict(length=len(ref["gates"]), gate=ref["gates"][j:j + 1], num_qubits=ref["num_qubits"], iterations=ref["k"]))
        if fresh_jobs is not None:
            fresh_jobs.append((case, dict(source=src, element=elj, M=M, k=k, profile=profile), gl))
        if len(pending) >= 16:
            flush(ctx, res, pending)
    # the caller's objects are the ones they were
    for name, o in objs.items():
        try:
            now = zero_ids(circ.qc_to_json(o.circuit()))
        except Exception as e:  # noqa
            now = f"{type(e).__name__}: {e}"
        if now != snap[name]:
            case = dict(n=n, form="history", history=hist, step=len(hist["steps"]), source=meta[name]["source"])
            res.violation(case, f"after the history the circuit of the caller's function object '{name}' is not the one it had before",
                          code=dict(length=len(now)), expected=dict(length=len(snap[name])))


def fresh_process_check(ctx, res, jobs, limit):
    """`limit` Grover steps rebuilt each in a process of its own (nothing was built there before): same gate list"""
    import os
    import subprocess
    import sys

    from .common import REPO, VERIF

    env = dict(os.environ, QV_REPO=REPO)
    procs = []
    for case, job, gl in jobs[:limit]:
        p = subprocess.Popen([sys.executable, "-m", "harness.c15", "--fresh"], cwd=VERIF, stdin=subprocess.PIPE,
                             stdout=subprocess.PIPE, stderr=subprocess.DEVNULL, text=True, env=env)
        p.stdin.write(json.dumps(job))
        p.stdin.close()
        procs.append((case, gl, p))
    n_ok = 0
    for case, gl, p in procs:
        try:
            out = p.stdout.read()
            p.wait(timeout=120)
            fresh = json.loads(out)["gates"]
        except Exception as e:  # noqa
            res.notes.append(f"fresh-process reference not available for one history step ({type(e).__name__})")
            continue
        n_ok += 1
        res.histogram["hist-fresh-process-compared"] = res.histogram.get("hist-fresh-process-compared", 0) + 1
        if fresh != gl:
            j = first_diff(gl, fresh)
            res.violation(case, f"step {case['step']}: the Grover circuit built at this point of the history is not the one a fresh process builds",
                          code=dict(length=len(gl), index=j, gate=gl[j:j + 1]), expected=dict(length=len(fresh), gate=fresh[j:j + 1]))
    return n_ok


def _fresh_main():
    import sys

    from .common import use_repo

    use_repo()
    job = json.loads(sys.stdin.read())
    from qlasskit import qlassf
    from qlasskit.algorithms import Grover
    import qlasskit.types as T

    el = job["element"]
    if isinstance(el, list):
        el = getattr(T, el[0])(el[1])
    qf = qlassf(job["source"], bool_optimizer=profile_obj(job.get("profile")))
    kw = {} if job.get("k") is None else dict(n_iterations=job["k"])
    g = Grover(qf, el, n_matching=job["M"], **kw)
    print(json.dumps(dict(gates=zero_ids(circ.qc_to_json(g.circuit())))))


def run(ctx: Ctx) -> Result:
    res = Result("C15")
    rng = ctx.rng
    nmax = 6 if ctx.thorough else 4
    res.rule = (
        "every (n, M) of the table 2<=n<=nmax, 1<=M<=2^n/4 (nmax=4 quick, 6 thorough) x solution sets "
        "(first M, last M, a run from 3, a spread pattern, random ones) x syntactic forms (equality chain, "
        "negated inequalities, bit minterms, membership loop, interval, Tuple[Qint,Qint], Tuple[bool,Qint], "
        "Qlist[bool,n], oraclize of a lookup function, oraclize of xor, element True), each form once per width also under "
        "fastOptimizer (random cases draw the profile); plus HISTORIES: sequences of Grover / oraclize / DeutschJozsa / Simon / "
        "BernsteinVazirani constructions on shared QlassF objects in one process (systematic slice on 2..4 search bits + random "
        "ones), every Grover step a case judged against the solution set of its own target; case = "
        "(n, S, form, source[, explicit iteration count]); each is a full Grover circuit evaluated exactly, all non-trivial; "
        "forms whose oracle needs more than the evaluator's support budget are counted as skipped"
    )
    validate_evaluator(ctx, res)
    global _tally
    _tally = e2e.Tally()
    pending, dist_by_S = [], {}
    t_run = time.time()
    ctx.log(f"[C15] run starts {t_run - ctx.t0:.1f}s after launch")
    order = ("eqchain", "minterm", "interval", "tuple", "booltuple", "qlist", "oraclize-lut", "element-true",
             "element-false", "oraclize-zero", "oraclize-xor", "neqchain", "loop")

    def forms_for(n, M, S, idx):
        fl = forms(n, S)
        names = [f for f in order if f in fl]
        if n >= 5 and idx % 2 == 1:
            names = [f for f in names if f not in ("oraclize-lut", "oraclize-zero")]  # slow to compile for wide lookup tables
        return fl, names

    fast_done = set()
    # ---- pass 1, systematic (the same for every seed): the whole table, two fixed solution sets per
    #      entry (four in the thorough tier), every form; explicit iteration counts on the first set
    for n, M in table(nmax):
        sets = solution_sets(n, M, rng, 0)          # first M, last M, run from 3, spread
        sets = sets if (ctx.thorough and n <= 5) else [sets[0], sets[-1]]
        if M == 2 and n >= 3:
            sets = sets + [[0, 2 ** n - 1]]  # two complementary minterms: the trigger family of the listed or2xor defect
        for si, S in enumerate(sets):
            fl, names = forms_for(n, M, S, si)
            for name in names:
                run_one(ctx, res, n, M, S, name, fl[name], pending, dist_by_S)
                # configuration: every form once per width under the other shipped optimizer profile (same S, so
                # its distribution is also compared with the default-profile forms of this set)
                if (n, name) not in fast_done:
                    fast_done.add((n, name))
                    run_one(ctx, res, n, M, S, name, fl[name], pending, dist_by_S, profile="fast")
                if len(pending) >= 16:
                    flush(ctx, res, pending)
        fl = forms(n, sets[0])
        # explicit iteration counts, incl. counts above the table's defaults (QCircuit.repeat(k) for k >= 5)
        for k in ((1, 2, 3, 5, 6) if n <= 3 else ((1, 2, 3, 5) if n <= 4 else (1, 3))):
            run_one(ctx, res, n, M, sets[0], "minterm", fl["minterm"], pending, dist_by_S, k=k)
            run_one(ctx, res, n, M, sets[0], "oraclize-lut" if n <= 4 else "loop",
                    fl["oraclize-lut" if n <= 4 else "loop"], pending, dist_by_S, k=k)
    if not ctx.thorough:
        # the one table entry with n = 5 whose default iteration count is 5 (the largest of the n <= 5 range)
        fl5 = forms(5, [21])
        for name in ("eqchain", "minterm"):
            run_one(ctx, res, 5, 1, [21], name, fl5[name], pending, dist_by_S)
    flush(ctx, res, pending)
    ctx.log(f"[C15] systematic pass done: {res.evaluations} cases, {time.time() - t_run:.1f}s")
    # ---- pass 1b, systematic histories (the same for every seed): several algorithm objects built one after the other
    #      in this process on SHARED function objects, 2..4 search bits
    refs, fresh_jobs = {}, []
    n_hist = 0
    for n in (2, 3, 4):
        for hist in systematic_histories(n):
            run_history(ctx, res, hist, pending, dist_by_S, refs,
                        fresh_jobs if hist["kind"] in ("targets3-lut", "targets2-pair", "aba-add", "predicate-twice") else None)
            n_hist += 1
    flush(ctx, res, pending)
    # the later steps of a few histories against processes in which nothing else was ever built
    later = [j for j in fresh_jobs if j[0]["step"] >= 1]
    n_fresh = fresh_process_check(ctx, res, later, 12 if not ctx.thorough else 40)
    ctx.log(f"[C15] systematic histories done: {n_hist} histories, {res.evaluations} cases so far, {time.time() - t_run:.1f}s")
    # ---- pass 2, random solution sets (from ctx.rng), every form; a wall-clock safety net only
    n_random = {2: 1, 3: 2, 4: 2, 5: 0, 6: 0}
    if ctx.thorough:
        n_random = {2: 2, 3: 4, 4: 4, 5: 2, 6: 1}
    safety = 700 if ctx.thorough else 120
    incomplete = False
    for n, M in table(nmax):
        for si in range(n_random[n]):
            S = sorted(rng.sample(range(2 ** n), M))
            fl, names = forms_for(n, M, S, si + 1)
            for name in names:
                if time.time() - t_run > safety:
                    incomplete = True
                    break
                prof = "fast" if rng.random() < 0.3 else "default"  # the profile is drawn per case
                run_one(ctx, res, n, M, S, name, fl[name], pending, dist_by_S, profile=prof)
                if len(pending) >= 16:
                    flush(ctx, res, pending)
    n_rand_hist = 16 if ctx.thorough else 6
    for hi in range(n_rand_hist):
        if time.time() - t_run > safety:
            incomplete = True
            break
        run_history(ctx, res, random_history(rng.choice((2, 3, 3, 4)), rng, hi), pending, dist_by_S, refs)
    flush(ctx, res, pending)
    res.notes.append(
        f"histories on shared objects: {n_hist} systematic histories (widths 2-4; per function family lut / add / xor / pair: two and "
        "three different targets on one QlassF object, the same target twice, a-b-a; explicit iteration counts; a function called "
        "'oracle'; oraclize directly then Grover and the other way round, the returned oracle object as a predicate, oraclize under "
        "other names; two function objects of the same name in two orders and with the same target literal; one predicate object for "
        "several Grover objects incl. element True / False; interleaved with DeutschJozsa / BernsteinVazirani / Simon objects on the "
        f"same function; three of them under fastOptimizer) + {n_rand_hist} random ones; every Grover step judged against the solution "
        "set of its own target and compared with the circuit fresh objects give; "
        f"{n_fresh} later steps also compared with a fresh process each")
    res.exhaustive = True  # the (n, M) table of the tier was enumerated completely in pass 1
    if incomplete:
        res.notes.append("wall-clock safety net reached during the random pass (machine under load); the systematic pass was complete")
    res.notes.append(
        "the step from the gate list to the reduced recurrence is proved for every clean xor-oracle (class_uniform_invariant, "
        "grover_distribution, C15_full); this correspondence additionally ties it to the real circuits: exact distribution of "
        "every explored real circuit == predict n M k"
    )
    res.extra["end_to_end"] = dict(covered=_tally.covered, covered_fragment_only=_tally.covered_fragment,
                                   instances=_tally.total, by_form=_tally.by)
    res.notes.append(
        f"{_tally.covered} of {_tally.total} evaluated instances are covered end to end by a Lean theorem "
        f"({_tally.covered_fragment} by C15_end_to_end_fragment - one tree-like definition, class inXorFragment -, the others by "
        "C15_end_to_end_general - class inGeneralClean: several definitions, shared sub-expressions / cache hits, constants, "
        "with the return qubit not an argument qubit and never a control, both evaluated on the model's output; explicit "
        "iteration counts: the _distribution forms): the oracle's definition list lies in the class AND the compiler "
        "model, run on the ancilla choices logged from the real compilation, emits exactly the oracle circuit inside this "
        f"Grover circuit (a difference would be a disagreement); per form fragment->any/evaluated: {_tally.by_text()}; the "
        "remaining instances rest on the per-instance clean-xor-oracle check of the real circuit, as before")
    res.notes.append(f"table entries explored: {len(table(nmax))} (n <= {nmax}); the (n, M) table itself is enumerated completely, "
                     "solution sets and forms per entry are a systematic slice plus a random part")
    res.assumptions.append("textbook action of H, X, Z, MCX, MCtrl(Z) on amplitudes (harness evaluator, cross-checked each run "
                           "against harness/circ.py's qiskit-validated simulator; Lean: QV.Grover.applyWave)")
    res.assumptions.append("3.141592 < pi < 3.141593 (the modelled default iteration count is the same for both bounds on the whole table)")
    return res


def witness_fails(ctx: Ctx, f):
    """replay a finding's witness {n, S, form} on the real code: does the property fail?"""
    w = f.get("witness", {})
    r = Result("C15")
    fl = forms(w["n"], w["S"])
    if w.get("form") not in fl:
        return None
    pend, dist = [], {}
    run_one(ctx, r, w["n"], len(w["S"]), sorted(w["S"]), w["form"], fl[w["form"]], pend, dist)
    return bool(r.violations)


def replay(ctx: Ctx, payload):
    first = payload.get("first") or (payload.get("correspondence_disagreements") or [{}])[0]
    case = first.get("case", {})
    print("replaying", json.dumps(case)[:2000])
    if "source" not in case:
        return 2
    r = Result("C15")
    pend, dist = [], {}
    if "history" in case:  # the whole history, from the start, on new shared objects
        run_history(ctx, r, case["history"], pend, dist, {})
        flush(ctx, r, pend)
        for v in r.violations[:3]:
            print("VIOLATION", json.dumps(v, default=str)[:2500])
        for v in r.disagreements[:3]:
            print("DISAGREE", json.dumps(v, default=str)[:2500])
        return 1 if (r.violations or r.disagreements) else 0
    fl = forms(case["n"], case["S"])
    spec = fl.get(case["form"])
    if spec is None or spec[0] != case["source"]:
        el = case.get("element")
        spec = (case["source"], tuple(el) if isinstance(el, list) else el, ["qint", case["n"]])
    run_one(ctx, r, case["n"], case["M"], case["S"], case["form"], spec, pend, dist, k=case.get("iterations"))
    # compare with the other forms of the same set as well
    for name, sp in fl.items():
        if name != case["form"]:
            run_one(ctx, r, case["n"], case["M"], case["S"], name, sp, pend, dist, k=case.get("iterations"))
    flush(ctx, r, pend)
    for v in r.violations[:3]:
        print("VIOLATION", json.dumps(v, default=str)[:1500])
    for v in r.disagreements[:3]:
        print("DISAGREE", json.dumps(v, default=str)[:1500])
    return 1 if (r.violations or r.disagreements) else 0


if __name__ == "__main__":
    import sys as _sys

    if "--fresh" in _sys.argv:
        _fresh_main()
