"""C07 - calling one compiled function from another is function composition.

(a) failing-input search on the real code: (callee, caller) programs over the argument shapes of
    the property (variables, tuple elements, repeated, swapped, several calls, nested calls, local
    variables, expressions, constants, literal tuples, width mismatch, names that collide with the
    callee prefix, callee chains, inline FunctionDef, oraclize wrappers).  Oracle: the Python
    sources executed with plain bools/ints/tuples on ALL inputs (fixed-width wrap of the declared
    return type); the caller's expressions are evaluated by harness/bexp.py (not sympy); free
    symbols of the caller must be its argument bits or earlier definitions; the callee objects'
    fingerprint (name, args, returns, expressions) must be the same after use.
(b) correspondence: every `Env.bind_function` and every *Known function* call of
    `translate_expression` made while compiling a case is logged (inputs, set orders, outputs)
    and replayed through the Lean model (`c07.bind`, `c07.call`, `c07.oraclize`), exact after
    canonicalising by sympy's constructors, semantic (truth table) otherwise.
(c) attribution: a failing case is a known finding only if the finding is open and active, its flag
    is *implicated* (switching that one flag off changes the model's output on one of the case's
    logged operations) and the quirk-model reproduces every logged operation of the case exactly.
"""
from __future__ import annotations

import ast
import copy
import itertools
import json
import time

from . import bexp
from .common import Ctx, Result

LEVEL = "proof"

FLAGS = {
    "C07-arg-index-from-name": "argIndexFromName",
    "C07-subs-sequential": "subsSequential",
    "C07-rename-sequential": "renameSequential",
    "C07-compress-sequential": "compressSequential",
    "C07-oraclize-renames-callee": "oraclizeRenames",
}

# --------------------------------------------------------------------------- types

B = "bool"


def Q(n):
    return ("Q", n)


def T(*ts):
    return ("T", list(ts))


def is_q(d):
    return isinstance(d, (tuple, list)) and d[0] == "Q"


def is_t(d):
    return isinstance(d, (tuple, list)) and d[0] == "T"


def tsrc(d):
    if d == B:
        return "bool"
    if is_q(d):
        return f"Qint{d[1]}"
    return "Tuple[" + ", ".join(tsrc(x) for x in d[1]) + "]"


def tbits(d):
    if d == B:
        return 1
    if is_q(d):
        return d[1]
    return sum(tbits(x) for x in d[1])


def tvalues(d):
    if d == B:
        return [False, True]
    if is_q(d):
        return list(range(2 ** d[1]))
    return [tuple(v) for v in itertools.product(*[tvalues(x) for x in d[1]])]


def tenc(d, v):
    """value -> bits in bitvec order (tuple elements in order, integers LSB first, wrapped)"""
    if d == B:
        return [bool(v)]
    if is_q(d):
        v = int(v) % (2 ** d[1])
        return [bool((v >> i) & 1) for i in range(d[1])]
    out = []
    for x, y in zip(d[1], v):
        out += tenc(x, y)
    return out


def norm_t(d):
    if d == B:
        return B
    if is_q(d):
        return ("Q", d[1])
    return ("T", [norm_t(x) for x in d[1]])


# --------------------------------------------------------------------------- callee library


def callee(name, args, ret, body, deps=()):
    """args: [(name, type)]; body: list of statement lines (one tab each is added)"""
    src = f"def {name}(" + ", ".join(f"{a}: {tsrc(t)}" for a, t in args) + f") -> {tsrc(ret)}:\n"
    src += "".join(f"\t{l}\n" for l in body)
    return dict(name=name, args=[[a, norm_t(t)] for a, t in args], ret=norm_t(ret), src=src,
                deps=list(deps))


def library(x="x", y="y", z="z", suffix=""):
    s = suffix
    return [
        callee(f"andf{s}", [(x, B), (y, B)], B, [f"return {x} and {y}"]),
        callee(f"nimp{s}", [(x, B), (y, B)], B, [f"return {x} and not {y}"]),
        callee(f"sel3{s}", [(x, B), (y, B), (z, B)], B, [f"return {y} if {x} else {z}"]),
        callee(f"pairf{s}", [(x, B), (y, B)], T(B, B), [f"return ({x} and not {y}, {x} ^ {y})"]),
        callee(f"multi{s}", [(x, B), (y, B)], B, [f"c = not {y}", f"d = c ^ {x}", f"return d and {x}"]),
        callee(f"incq{s}", [(x, Q(2))], Q(2), [f"return {x} + 1"]),
        callee(f"gtq{s}", [(x, Q(2)), (y, Q(2))], B, [f"return {x} > {y}"]),
        callee(f"mixq{s}", [(x, Q(2)), (y, B)], Q(2), [f"return {x} + 1 if {y} else {x}"]),
        callee(f"tsel{s}", [(x, T(B, B))], B, [f"return {x}[0] and not {x}[1]"]),
        callee(f"tqb{s}", [(x, T(Q(2), B))], B, [f"return ({x}[0] == 2) ^ {x}[1]"]),
        callee(f"xorq4{s}", [(x, Q(4)), (y, Q(4))], Q(4), [f"return ({x} ^ {y}) + 1"]),
        callee(f"eqq{s}", [(x, Q(2)), (y, Q(2))], B, [f"return {x} == {y}"]),
    ]


# --------------------------------------------------------------------------- caller builder

VARS = ["a", "b", "c", "d", "e", "g", "h", "aa", "bb", "cc", "dd", "ee"]


class Builder:
    """collects caller parameters; hands out Python expressions of a wanted type"""

    def __init__(self, names=None):
        self.params = []
        self.pool = list(names or VARS)

    def fresh(self, t, name=None):
        n = name or self.pool.pop(0)
        self.params.append([n, norm_t(t)])
        return n

    def bits(self):
        return sum(tbits(t) for _, t in self.params)


def caller_src(params, ret, body, name="caller"):
    src = f"def {name}(" + ", ".join(f"{a}: {tsrc(t)}" for a, t in params) + f") -> {tsrc(ret)}:\n"
    return src + "".join(f"\t{l}\n" for l in body)


def mk_case(callees, params, ret, body, shape, kind="defs", **kw):
    d = dict(kind=kind, shape=shape, callees=callees, params=params, ret=norm_t(ret),
             caller=caller_src(params, ret, body))
    d.update(kw)
    return d


def ret_body(cal, call, tag=""):
    """statements returning the result of `call`, and the caller's return type"""
    r = cal["ret"]
    if is_t(r):
        return [f"r{tag} = {call}", f"return r{tag}"], r
    return [f"return {call}"], r


def combine2(cal, c1, c2):
    r = cal["ret"]
    if r == B:
        return [f"return {c1} ^ {c2}"], B
    if is_q(r):
        return [f"u = {c1}", f"v = {c2}", "return u == v"], B
    return [f"u = {c1}", f"v = {c2}", "return u[0] ^ v[1]"], B


def shapes_for(cal, rng=None):
    """systematic argument shapes for one callee -> list of cases"""
    out = []
    nm = cal["name"]
    fargs = cal["args"]
    types = [t for _, t in fargs]

    def call(actuals, f=nm):
        return f"{f}(" + ", ".join(actuals) + ")"

    # vars
    b = Builder()
    acts = [b.fresh(t) for t in types]
    body, r = ret_body(cal, call(acts))
    out.append(mk_case([cal], b.params, r, body, "vars"))
    # swapped / repeated among same-typed formals
    if len(types) >= 2 and len({json.dumps(t) for t in types}) == 1:
        b = Builder()
        acts = [b.fresh(t) for t in types]
        body, r = ret_body(cal, call(list(reversed(acts))))
        out.append(mk_case([cal], b.params, r, body, "swapped"))
        b = Builder()
        v = b.fresh(types[0])
        w = b.fresh(types[0])
        body, r = ret_body(cal, call([v] * len(types)))
        out.append(mk_case([cal], b.params, r, body, "repeated"))
        # several calls
        b = Builder()
        acts = [b.fresh(t) for t in types]
        body, r = combine2(cal, call(acts), call(list(reversed(acts))))
        out.append(mk_case([cal], b.params, r, body, "two-calls"))
        body, r = combine2(cal, call([acts[0]] * len(types)), call(acts))
        out.append(mk_case([cal], b.params, r, body, "two-calls-repeated"))
        # names colliding with the callee prefix
        b = Builder()
        acts = [b.fresh(t, f"{nm}_{a}") for a, t in fargs]
        body, r = ret_body(cal, call(list(reversed(acts))))
        out.append(mk_case([cal], b.params, r, body, "prefix-names-swapped"))
        b = Builder()
        acts = [b.fresh(t, f"{nm}_{a}") for a, t in reversed(fargs)]
        body, r = ret_body(cal, call(acts))
        out.append(mk_case([cal], b.params, r, body, "prefix-names-crossed"))
    b = Builder()
    acts = [b.fresh(t, f"{nm}_{a}") for a, t in fargs]
    body, r = ret_body(cal, call(acts))
    out.append(mk_case([cal], b.params, r, body, "prefix-names-same"))
    # tuple elements
    if sum(tbits(t) for t in types) <= 6:
        b = Builder()
        tv = b.fresh(T(*types) if len(types) > 1 else T(types[0], B))
        body, r = ret_body(cal, call([f"{tv}[{i}]" for i in range(len(types))]))
        out.append(mk_case([cal], b.params, r, body, "tuple-elems"))
        b = Builder()
        tv = b.fresh(T(B, *reversed(types)))
        n = len(types)
        body, r = ret_body(cal, call([f"{tv}[{n - i}]" for i in range(n)]))
        out.append(mk_case([cal], b.params, r, body, "tuple-elems-reversed"))
        b = Builder()
        tv = b.fresh(T(T(*types) if len(types) > 1 else T(types[0], B), B))
        body, r = ret_body(cal, call([f"{tv}[0][{i}]" for i in range(len(types))]))
        out.append(mk_case([cal], b.params, r, body, "nested-tuple-elems"))
    # local variables
    b = Builder()
    lines, acts = [], []
    for i, t in enumerate(types):
        v = b.fresh(t)
        if t == B:
            w = b.fresh(B)
            lines.append(f"t{i} = {v} ^ {w}")
        elif is_q(t):
            lines.append(f"t{i} = {v} ^ 1")
        else:
            lines.append(f"t{i} = {v}")
        acts.append(f"t{i}")
    body, r = ret_body(cal, call(acts))
    out.append(mk_case([cal], b.params, r, lines + body, "local-vars"))
    # expressions / constants as arguments
    b = Builder()
    acts = []
    for t in types:
        v = b.fresh(t)
        if t == B:
            w = b.fresh(B)
            acts.append(f"({v} and not {w})")
        elif is_q(t):
            acts.append(f"({v} ^ 2)")
        else:
            acts.append("(" + ", ".join(f"{v}[{len(t[1]) - 1 - i}]" for i in range(len(t[1]))) + ")"
                        if len({json.dumps(x) for x in t[1]}) == 1 else v)
    body, r = ret_body(cal, call(acts))
    out.append(mk_case([cal], b.params, r, body, "expr-args"))
    b = Builder()
    acts = []
    first = True
    for t in types:
        if first or is_t(t):
            acts.append(b.fresh(t))
            first = False
        else:
            acts.append("True" if t == B else "1")
    b.fresh(B) if not b.params else None
    body, r = ret_body(cal, call(acts))
    out.append(mk_case([cal], b.params, r, body, "const-args"))
    # literal tuple for tuple formals
    if any(is_t(t) for t in types):
        b = Builder()
        acts = []
        for t in types:
            if is_t(t):
                acts.append("(" + ", ".join(b.fresh(x) for x in t[1]) + ")")
            else:
                acts.append(b.fresh(t))
        body, r = ret_body(cal, call(acts))
        out.append(mk_case([cal], b.params, r, body, "literal-tuple"))
    # nested call
    if json.dumps(cal["ret"]) == json.dumps(types[0]):
        b = Builder()
        acts = [b.fresh(t) for t in types]
        inner = call(acts)
        body, r = ret_body(cal, call([inner] + list(reversed(acts[1:]))))
        out.append(mk_case([cal], b.params, r, body, "nested-call"))
    # width mismatch
    if any(is_q(t) for t in types):
        for delta in (2, -2):
            b = Builder()
            acts = []
            ok = True
            for t in types:
                if is_q(t):
                    if t[1] + delta < 2:
                        ok = False
                        break
                    acts.append(b.fresh(Q(t[1] + delta)))
                else:
                    acts.append(b.fresh(t))
            if ok:
                body, r = ret_body(cal, call(acts))
                out.append(mk_case([cal], b.params, r, body, "width-wider" if delta > 0 else "width-narrower"))
    # arity
    b = Builder()
    acts = [b.fresh(t) for t in types]
    body, r = ret_body(cal, call(acts[:-1] if len(acts) > 1 else acts + acts))
    out.append(mk_case([cal], b.params, r, body, "arity"))
    # inline FunctionDef
    b = Builder()
    acts = [b.fresh(t) for t in types]
    inner = ["\t" + l if i else l for i, l in enumerate(cal["src"].rstrip("\n").split("\n"))]
    inner = cal["src"].rstrip("\n").split("\n")
    body, r = ret_body(cal, call(list(reversed(acts)) if len({json.dumps(t) for t in types}) == 1 else acts))
    out.append(mk_case([], b.params, r, inner + body, "inline", kind="inline"))
    return out


def chain_cases():
    """a callee that itself calls a callee; caller uses both"""
    out = []
    f = callee("nimpc", [("x", B), ("y", B)], B, ["return x and not y"])
    g = callee("gch", [("x", B), ("y", B)], B, ["return nimpc(y, x) ^ x"], deps=["nimpc"])
    b = Builder()
    p, q = b.fresh(B), b.fresh(B)
    out.append(mk_case([f, g], b.params, B, [f"return gch({p}, {q})"], "chain"))
    out.append(mk_case([f, g], b.params, B, [f"return gch({q}, {p}) ^ nimpc({p}, {q})"], "chain-both"))
    out.append(mk_case([f, g], b.params, B, [f"return gch(nimpc({q}, {p}), {p})"], "chain-nested"))
    # same formal names as the caller's and as the other callee's prefixed names
    f2 = callee("hh", [("x", B), ("hh_x", B)], B, ["return x and not hh_x"])
    out.append(mk_case([f2], [["a", B], ["b", B]], B, ["return hh(a, b)"], "callee-own-prefix"))
    out.append(mk_case([f2], [["x", B], ["hh_x", B]], B, ["return hh(hh_x, x)"], "callee-own-prefix-swapped"))
    # inner function in inner function, inner function shadowing nothing
    src = ["def in1(b: bool, c: bool) -> bool:", "\tdef in2(b: bool) -> bool:", "\t\treturn not b",
           "\treturn in2(c) and b", "return in1(q, p) ^ in1(p, p)"]
    out.append(mk_case([], [["p", B], ["q", B]], B, src, "inline-nested", kind="inline"))
    # inline callees that re-assign a local variable / their own parameters (the callee's definition list
    # then binds one symbol several times: bind_function must compress it in order, latest binding wins)
    src = ["def rl(a: bool, b: bool) -> bool:", "\tc = a ^ b", "\tc = c and a", "\treturn c or b", "return rl(q, p)"]
    out.append(mk_case([], [["p", B], ["q", B]], B, src, "inline-reassign-local", kind="inline"))
    src = ["def rp(a: bool, b: bool) -> bool:", "\ta = a ^ b", "\tb = a and b", "\treturn a or b", "return rp(p, q)"]
    out.append(mk_case([], [["p", B], ["q", B]], B, src, "inline-reassign-param", kind="inline"))
    src = ["def rp2(a: bool, b: bool, c: bool) -> bool:", "\tb = b ^ a", "\ta = a and c", "\tc = b or a", "\tb = not c",
           "\treturn (a ^ b) or c", "return rp2(q, p, q) ^ rp2(p, p, q)"]
    out.append(mk_case([], [["p", B], ["q", B]], B, src, "inline-reassign-param", kind="inline"))
    src = ["def ri(a: Qint[2], b: Qint[2]) -> Qint[2]:", "\ta = a + b", "\tb = a ^ b", "\treturn a + b", "return ri(q, p)"]
    out.append(mk_case([], [["p", Q(2)], ["q", Q(2)]], Q(2), src, "inline-reassign-param", kind="inline"))
    return out


def oraclize_cases():
    out = []
    lib = {c["name"]: c for c in library()}
    for nm, elems in (("incq", [0, 1, 3]), ("tsel", [True, False]), ("tqb", [True])):
        for el in elems:
            out.append(dict(kind="oraclize", shape="oraclize", callees=[lib[nm]], element=el, oname="oracle"))
    out.append(dict(kind="oraclize", shape="oraclize-name", callees=[lib["incq"]], element=2, oname="incq"))
    orc = callee("oracle", [("x", Q(2))], Q(2), ["return x + 1"])
    out.append(dict(kind="oraclize", shape="oraclize-callee-named-oracle", callees=[orc], element=2, oname="oracle"))
    orc2 = callee("orq", [("v", T(B, B))], B, ["return v[0] ^ v[1]"])
    out.append(dict(kind="oraclize", shape="oraclize-same-argname", callees=[orc2], element=True, oname="oracle"))
    return out


NAME_POOL = ["x", "y", "z", "p", "q", "k", "m", "n", "u", "v", "w", "i", "j", "s", "t", "l", "o", "r"]


def random_cases(rng, count):
    """random callee (bool program with random argument names, possibly names of the form
    <callee>_<other arg>) and random caller shape; random library callee with random names"""
    out = []
    from . import progs
    k = 0
    while len(out) < count:
        k += 1
        r = rng.random()
        if r < 0.45:
            # random boolean callee with intermediate statements
            n = rng.randint(2, 4)
            fname = rng.choice(["ff", "gg", "hq", "kk", "fx", "rr"]) + str(rng.randint(0, 9))
            names = rng.sample(NAME_POOL, n)
            if rng.random() < 0.5:
                # an argument called <callee>_<another argument>
                i, j = rng.sample(range(n), 2)
                names[i] = f"{fname}_{names[j]}"
            body = []
            avail = list(names)
            for s in range(rng.choice([0, 0, 1, 2])):
                body.append(f"w{s} = {progs.gen_bool_expr(rng, avail, 2)}")
                avail.append(f"w{s}")
            nret = rng.choice([1, 1, 2])
            if nret == 1:
                body.append(f"return {progs.gen_bool_expr(rng, avail, 2)}")
                ret = B
            else:
                body.append(f"return ({progs.gen_bool_expr(rng, avail, 2)}, {progs.gen_bool_expr(rng, avail, 2)})")
                ret = T(B, B)
            cal = callee(fname, [(a, B) for a in names], ret, body)
        else:
            nm = rng.sample(NAME_POOL, 3)
            lib = library(nm[0], nm[1], nm[2], suffix=str(rng.randint(0, 9)))
            cal = rng.choice(lib)
            if rng.random() < 0.3 and len(cal["args"]) >= 2:
                # rename second formal to <callee>_<first formal>
                a0 = cal["args"][0][0]
                a1 = cal["args"][1][0]
                new = f"{cal['name']}_{a0}"
                cal = json.loads(json.dumps(cal))
                cal["src"] = cal["src"].replace(f"{a1}:", f"{new}:").replace(f" {a1}\n", f" {new}\n") \
                    .replace(f" {a1} ", f" {new} ").replace(f"{a1}[", f"{new}[").replace(f"({a1} ", f"({new} ") \
                    .replace(f" {a1})", f" {new})").replace(f"({a1},", f"({new},").replace(f", {a1})", f", {new})")
                cal["args"][1][0] = new
                try:
                    ast.parse(cal["src"])
                except SyntaxError:
                    continue
        cs = shapes_for(cal)
        cs = [c for c in cs if sum(tbits(t) for _, t in c["params"]) <= 8]
        if not cs:
            continue
        c = rng.choice(cs)
        # random permutation / renaming of the caller's parameter names (incl. callee-prefixed ones)
        if rng.random() < 0.4 and c["kind"] == "defs" and not c["shape"].startswith("prefix"):
            c = rename_params(rng, c, cal)
        c["shape"] = "rnd-" + c["shape"]
        out.append(c)
    return out


def rename_params(rng, c, cal):
    """rename the caller's parameters to names of the callee's prefixed formals (random assignment)"""
    pre = [f"{cal['name']}_{a}" for a, _ in cal["args"]]
    rng.shuffle(pre)
    m = {}
    for (p, _), n in zip(c["params"], pre):
        m[p] = n

    class Rn(ast.NodeTransformer):
        def visit_Name(self, node):
            if node.id in m:
                node.id = m[node.id]
            return node

        def visit_arg(self, node):
            if node.arg in m:
                node.arg = m[node.arg]
            return node

    tree = Rn().visit(ast.parse(c["caller"]))
    c = dict(c)
    c["caller"] = ast.unparse(tree) + "\n"
    c["params"] = [[m.get(p, p), t] for p, t in c["params"]]
    return c


# --------------------------------------------------------------------------- instrumentation


class Log:
    def __init__(self):
        self.records = []


def lf_json(lf):
    name, args, ret, exps = lf
    return dict(name=name, args=[[a.name, list(a.bitvec)] for a in args],
                ret=[ret.name, list(ret.bitvec)],
                exps=[[s.name, bexp.to_json(e)] for s, e in exps])


def flat(v):
    if isinstance(v, list):
        out = []
        for x in v:
            out += flat(x)
        return out
    return [v]


def actual_json(v):
    if isinstance(v, list):
        return dict(list=True, nested=any(isinstance(x, list) for x in v), bits=[bexp.to_json(x) for x in flat(v)])
    return dict(list=False, nested=False, bits=[bexp.to_json(v)])


class Instrument:
    """log every Env.bind_function and every Known-function call of translate_expression"""

    def __init__(self, log):
        self.log = log

    def __enter__(self):
        from qlasskit import ast2logic
        from qlasskit.ast2logic import env as envmod, t_expression, t_statement
        self.mods = [ast2logic, t_expression, t_statement]
        self.envmod = envmod
        self.orig_te = t_expression.translate_expression
        self.orig_bf = envmod.Env.bind_function
        log = self.log
        orig_te = self.orig_te
        orig_bf = self.orig_bf

        def bind_function(env_self, deff):
            rec = dict(op="bind")
            try:
                rec["types"] = [t[0] for t in env_self.types]
                rec["defs"] = [lf_json(d) for d in env_self.defs]
                rec["fun"] = lf_json(deff)
                rec["orders"] = [[x.name for x in e.free_symbols] for _, e in deff[3]]
            except Exception as e:  # not modelled (e.g. quantum hybrid values)
                rec = None
            r = orig_bf(env_self, deff)
            if rec is not None:
                try:
                    rec["after"] = [lf_json(d) for d in env_self.defs]
                    log.records.append(rec)
                except Exception:
                    pass
            return r

        def translate_expression(expr, env):
            if (isinstance(expr, ast.Call) and hasattr(expr.func, "id")
                    and not env.know_type(expr.func.id) and expr.func.id not in ("int", "float")
                    and env.know_function(expr.func.id)):
                rec = dict(op="call", name=expr.func.id, src=ast.unparse(expr))
                n0 = len(log.records)
                try:
                    rec["defs"] = [lf_json(d) for d in env.defs]
                    acts = [orig_te(e, env) for e in expr.args]
                    del log.records[n0:]  # the arguments are translated again by the real call below
                    rec["actuals"] = [actual_json(a[1]) for a in acts]
                except Exception:
                    rec = None
                    del log.records[n0:]
                try:
                    r = orig_te(expr, env)
                except Exception as e:
                    if rec is not None:
                        rec["error"] = type(e).__name__
                        log.records.append(rec)
                    raise
                if rec is not None:
                    v = r[1]
                    rec["ok"] = [bexp.to_json(x) for x in (v if isinstance(v, list) else [v])]
                    log.records.append(rec)
                return r
            return orig_te(expr, env)

        envmod.Env.bind_function = bind_function
        for m in self.mods:
            m.translate_expression = translate_expression
        return self

    def __exit__(self, *a):
        self.envmod.Env.bind_function = self.orig_bf
        for m in self.mods:
            m.translate_expression = self.orig_te
        return False


# --------------------------------------------------------------------------- running a case on the real code


def fingerprint(qf):
    from sympy import srepr
    return json.dumps([qf.name, [[a.name, str(a.ttype), list(a.bitvec)] for a in qf.args],
                       [qf.returns.name, str(qf.returns.ttype), list(qf.returns.bitvec)],
                       [[s.name, srepr(e)] for s, e in qf.expressions]])


def py_namespace():
    from typing import Tuple
    import qlasskit
    ns = {"Tuple": Tuple}
    for n in (2, 3, 4, 5, 6, 7, 8):
        ns[f"Qint{n}"] = getattr(qlasskit, f"Qint{n}")
    return ns


def twrap(d, v):
    """the value as the declared type holds it (integers wrap to the width)"""
    if d == B:
        return bool(v)
    if is_q(d):
        return int(v) % (2 ** d[1])
    return tuple(twrap(x, y) for x, y in zip(d[1], v))


def wrapped(fn, ret):
    def w(*a):
        return twrap(ret, fn(*a))
    return w


def table_of_python(fn, params, ret):
    rows = []
    for vals in itertools.product(*[tvalues(t) for _, t in params]):
        out = fn(*vals)
        bits = []
        for (_, t), v in zip(params, vals):
            bits += tenc(t, v)
        rows.append((bits, tenc(ret, out)))
    return rows


def eval_qf(qf_args_bits, exps_json, ret_bits, bits):
    env = dict(zip(qf_args_bits, bits))
    for s, e in exps_json:
        env[s] = bexp.eval_json(e, env)
    return [env[r] for r in ret_bits]


def dangling(arg_bits, exps_json):
    known = set(arg_bits)
    bad = []
    for s, e in exps_json:
        for n in bexp.syms_json(e):
            if n not in known and n not in bad:
                bad.append(n)
        known.add(s)
    return bad


def judge_qf(qf, fn, params, ret):
    """None when the compiled function equals the Python meaning on all inputs"""
    arg_bits = [b for a in qf.args for b in a.bitvec]
    exps = [[s.name, bexp.to_json(e)] for s, e in qf.expressions]
    bad = dangling(arg_bits, exps)
    if bad:
        return dict(what="free symbols that are not the caller's argument bits", symbols=bad,
                    expressions=[[s, str(bexp.from_json(e))] for s, e in exps])
    missing = [r for r in qf.returns.bitvec if r not in [s for s, _ in exps] and r not in arg_bits]
    if missing or len(qf.returns.bitvec) != tbits(ret):
        return dict(what="the return bits are not defined by the expressions", missing=missing,
                    returns=list(qf.returns.bitvec),
                    expressions=[[s, str(bexp.from_json(e))] for s, e in exps])
    if len(arg_bits) != sum(tbits(t) for _, t in params):
        return dict(what="argument bits differ from the declared shape", bits=arg_bits)
    for bits, want in table_of_python(fn, params, ret):
        got = eval_qf(arg_bits, exps, list(qf.returns.bitvec), bits)
        if got != want:
            return dict(what="truth table differs from the Python meaning",
                        input="".join("1" if b else "0" for b in bits),
                        code="".join("1" if b else "0" for b in got),
                        expected="".join("1" if b else "0" for b in want),
                        expressions=[[s, str(bexp.from_json(e))] for s, e in exps])
    return None


def run_case(case):
    """-> dict(status in ok|rejected|callee-bad|fail, fail=..., records=[...])"""
    from qlasskit import qlassf
    log = Log()
    out = dict(status="ok", records=log.records, fail=None, error=None)
    ns = py_namespace()
    qfs = {}
    fps = {}
    try:
        for c in case["callees"]:
            exec(c["src"], ns)
            ns[c["name"]] = wrapped(ns[c["name"]], c["ret"])
    except Exception as e:
        out.update(status="bad-case", error=f"{type(e).__name__}: {e}")
        return out
    with Instrument(log):
        # callees
        for c in case["callees"]:
            try:
                qf = qlassf(c["src"], defs=[qfs[d] for d in c["deps"]], to_compile=False)
            except Exception as e:
                out.update(status="callee-rejected", error=f"{type(e).__name__}: {e}")
                return out
            qfs[c["name"]] = qf
            j = judge_qf(qf, ns[c["name"]], c["args"], c["ret"])
            if j is not None and not c["deps"]:
                out.update(status="callee-bad", error=j["what"])
                return out
            if j is not None:
                out.update(status="fail", fail=dict(j, stage=f"callee {c['name']} (uses {c['deps']})"))
                return out
            fps[c["name"]] = fingerprint(qf)
        n_callee_records = len(log.records)
        if case["kind"] == "oraclize":
            from qlasskit.algorithms import oraclize
            from qlasskit.algorithms.qalgorithm import ConstantOracleException
            c = case["callees"][0]
            qf = qfs[c["name"]]
            f = ns[c["name"]]
            el = case["element"]
            at = c["args"][0][1]
            want_const = len({bool(f(v) == el) for v in tvalues(at)}) == 1
            out["oraclize"] = dict(fun=lf_json(qf.to_logicfun()), name=case["oname"])
            try:
                orc = oraclize(qf, el, name=case["oname"])
            except ConstantOracleException:
                out.update(status="rejected", error="ConstantOracleException")
                if not want_const:
                    out.update(status="fail", fail=dict(what="ConstantOracleException for a non-constant oracle"))
                orc = None
            except Exception as e:
                out.update(status="rejected", error=f"{type(e).__name__}: {e}")
                orc = None
            out["oraclize"]["after"] = lf_json(qf.to_logicfun())
            if orc is not None:
                j = judge_qf(orc, lambda v: f(v) == el, [["v", at]], B)
                if j is not None:
                    out.update(status="fail", fail=dict(j, stage="oracle"))
                elif orc.name != case["oname"]:
                    out.update(status="fail", fail=dict(what="oracle has the wrong name", code=orc.name))
        else:
            py_ok = True
            try:
                exec(case["caller"], ns)
                want_fn = ns["caller"]
                # a caller Python itself rejects on some input has no meaning to compare with
                table_of_python(want_fn, case["params"], case["ret"])
            except Exception as e:
                py_ok = False
                out.update(status="python-rejects", error=f"python: {type(e).__name__}: {e}")
            try:
                qc = qlassf(case["caller"], defs=[qfs[c["name"]] for c in case["callees"]], to_compile=False)
            except Exception as e:
                if py_ok:
                    out.update(status="rejected", error=f"{type(e).__name__}: {str(e)[:120]}")
                qc = None
            if qc is not None and py_ok:
                j = judge_qf(qc, want_fn, case["params"], case["ret"])
                if j is not None:
                    out.update(status="fail", fail=dict(j, stage="caller"))
        # the callee objects are unchanged
        for c in case["callees"]:
            if fingerprint(qfs[c["name"]]) != fps[c["name"]] and out["status"] != "fail":
                out.update(status="fail", fail=dict(what="the callee object changed", callee=c["name"],
                                                   before=fps[c["name"]][:300],
                                                   after=fingerprint(qfs[c["name"]])[:300]))
    out["n_callee_records"] = n_callee_records
    return out


# --------------------------------------------------------------------------- model side


def sem_equal(a_json, b_json):
    names = sorted(set(bexp.syms_json(a_json)) | set(bexp.syms_json(b_json)))
    if len(names) > 14:
        return None
    return bexp.truth_table(names, [a_json]) == bexp.truth_table(names, [b_json])


def exp_equal(model_json, code_json, stats):
    try:
        if bexp.from_json(model_json) == bexp.from_json(code_json):
            return True
    except Exception:
        pass
    r = sem_equal(model_json, code_json)
    if r:
        stats["semantic-only"] = stats.get("semantic-only", 0) + 1
    return bool(r)


def fun_equal(m, c, stats):
    if m["name"] != c["name"] or m["args"] != c["args"] or m["ret"] != c["ret"]:
        return False
    if [e[0] for e in m["exps"]] != [e[0] for e in c["exps"]]:
        return False
    return all(exp_equal(x[1], y[1], stats) for x, y in zip(m["exps"], c["exps"]))


def requests_for(rec, quirks):
    if rec["op"] == "bind":
        return dict(op="c07.bind", quirks=quirks, types=rec["types"], defs=rec["defs"], fun=rec["fun"],
                    orders=rec["orders"])
    if rec["op"] == "call":
        return dict(op="c07.call", quirks=quirks, defs=rec["defs"], name=rec["name"], actuals=rec["actuals"])
    return dict(op="c07.oraclize", quirks=quirks, fun=rec["fun"], name=rec["name"])


def reply_matches(rec, rep, stats):
    """does the model's reply equal what the code did"""
    if "driver_error" in rep:
        return False
    if rec["op"] == "bind":
        m, c = rep["defs"], rec["after"]
        return len(m) == len(c) and all(fun_equal(x, y, stats) for x, y in zip(m, c))
    if rec["op"] == "call":
        if "error" in rec:
            return rep.get("error") == rec["error"]
        if "ok" not in rep:
            return False
        return len(rep["ok"]) == len(rec["ok"]) and all(exp_equal(x, y, stats) for x, y in zip(rep["ok"], rec["ok"]))
    return rep["after"] == rec["after"]


def replies_same(op, a, b):
    """are two model replies semantically the same (for the counterfactual trigger)"""
    stats = {}
    if "driver_error" in a or "driver_error" in b:
        return False
    if op == "bind":
        return len(a["defs"]) == len(b["defs"]) and all(fun_equal(x, y, stats) for x, y in zip(a["defs"], b["defs"]))
    if op == "call":
        if ("ok" in a) != ("ok" in b):
            return False
        if "ok" not in a:
            return a == b
        return len(a["ok"]) == len(b["ok"]) and all(exp_equal(x, y, stats) for x, y in zip(a["ok"], b["ok"]))
    return a["after"] == b["after"]


def active_flags(ctx):
    return sorted({f["quirk"] for f in ctx.findings if f.get("status", "open") == "open" and f.get("_active")
                   and f.get("quirk")})


def finding_of_flag(ctx, flag):
    for f in ctx.findings:
        if f.get("quirk") == flag and f.get("status", "open") == "open" and f.get("_active"):
            return f["id"]
    return None


def case_records(case, outcome):
    recs = list(outcome["records"])
    if "oraclize" in outcome and "after" in outcome["oraclize"]:
        o = outcome["oraclize"]
        recs.append(dict(op="oraclize", fun=o["fun"], name=o["name"], after=o["after"]))
    return recs


def check_cases(ctx, res, cases, bucket):
    active = active_flags(ctx)
    outcomes = []
    reqs = []
    index = []  # (case idx, rec idx, variant)
    for ci, case in enumerate(cases):
        oc = run_case(case)
        outcomes.append(oc)
        recs = case_records(case, oc)
        oc["recs"] = recs
        for ri, rec in enumerate(recs):
            reqs.append(requests_for(rec, active))
            index.append((ci, ri, None))
            for fl in active:
                reqs.append(requests_for(rec, [x for x in active if x != fl]))
                index.append((ci, ri, fl))
    replies = ctx.model(reqs) if reqs else []
    per = {}
    if replies is not None:
        for (ci, ri, fl), rep in zip(index, replies):
            per.setdefault((ci, ri), {})[fl] = rep
    stats = res.extra.setdefault("correspondence", {})
    for ci, (case, oc) in enumerate(zip(cases, outcomes)):
        small = {k: case[k] for k in case if k != "callees"}
        small["callee_srcs"] = [c["src"] for c in case["callees"]]
        nontrivial = oc["status"] in ("ok", "fail") and (len(oc["recs"]) > 0)
        res.count(small, nontrivial=nontrivial, bucket=f"{bucket}:{case['shape'].replace('rnd-', '')}:{oc['status']}")
        all_match = True
        implicated = set()
        if replies is not None:
            for ri, rec in enumerate(oc["recs"]):
                reps = per.get((ci, ri), {})
                base = reps.get(None)
                stats["operations"] = stats.get("operations", 0) + 1
                if base is None or not reply_matches(rec, base, stats):
                    all_match = False
                    res.disagree(dict(case=small, operation={k: rec[k] for k in rec if k != "defs"}),
                                 f"model and code differ on a logged {rec['op']}",
                                 code=rec.get("after") or rec.get("ok") or rec.get("error"), model=base)
                for fl in active:
                    if fl in reps and base is not None and not replies_same(rec["op"], base, reps[fl]):
                        implicated.add(fl)
        else:
            all_match = False
        if oc["status"] == "fail":
            fids = [finding_of_flag(ctx, fl) for fl in sorted(implicated)]
            if implicated and all(fids) and all_match:
                for fid in fids:
                    res.known(fid)
            else:
                res.violation(dict(case, status=oc["status"]), oc["fail"]["what"], code=oc["fail"],
                              expected="the caller's Python meaning on all inputs; callee unchanged",
                              implicated=sorted(implicated), model_reproduces=all_match)
    return outcomes


# --------------------------------------------------------------------------- direct API cases (synthetic LogicFuns)


def synthetic_cases(rng, count):
    """bind_function / call site on synthetic definition lists (reassignment, shared names,
    type-named functions, duplicate definitions), driven through the real Env and translate_expression"""
    from . import progs
    out = []
    for k in range(count):
        n = rng.randint(1, 3)
        fname = rng.choice(["f", "g", "Qint2", "ab"])
        argn = rng.sample(["x", "y", "z", f"{fname}_x", f"{fname}_y"], n)
        exps = []
        names = list(argn)
        for i in range(rng.choice([0, 1, 2, 3])):
            s = rng.choice([f"t{i}", f"t{i}", rng.choice(names)])
            exps.append([s, progs.gen_bexp(rng, names, rng.randint(1, 2))])
            if s not in names:
                names.append(s)
        nret = rng.choice([1, 2])
        rets = ["_ret"] if nret == 1 else ["_ret.0", "_ret.1"]
        for r in rets:
            exps.append([r, progs.gen_bexp(rng, names, rng.randint(1, 3))])
        caller_names = rng.sample(["a", "b", "c", f"{fname}_x", f"{fname}_y", "x", "y"], 3)
        acts = []
        for _ in argn:
            acts.append(progs.gen_bexp(rng, caller_names, rng.choice([0, 0, 1, 2])))
        out.append(dict(kind="synthetic", shape="synthetic", fname=fname, args=argn, exps=exps, rets=rets,
                        actuals=acts, twice=rng.random() < 0.1))
    return out


def py_of_json(j):
    t = j[0]
    if t == "sym":
        return j[1]
    if t == "not":
        return f"(not {py_of_json(j[1])})"
    op = {"and": " and ", "or": " or ", "xor": " ^ "}[t]
    return "(" + op.join(py_of_json(x) for x in j[1:]) + ")"


def run_synthetic(case):
    from sympy import Symbol
    from qlasskit.ast2logic import Env, translate_expression
    from qlasskit.ast2logic.typing import Arg
    log = Log()
    args = [Arg(a, bool, [a]) for a in case["args"]]
    nret = len(case["rets"])
    from typing import Tuple
    ret = Arg("_ret", bool if nret == 1 else Tuple[bool, bool], list(case["rets"]))
    lf = (case["fname"], args, ret, [(Symbol(s), bexp.from_json(e)) for s, e in case["exps"]])
    env = Env()
    names = sorted({n for a in case["actuals"] for n in bexp.syms_json(a)})
    for n in names:
        env.bind(Arg(n, bool, [n]))
    with Instrument(log):
        env.bind_function(copy.deepcopy(lf))
        if case.get("twice"):
            env.bind_function(copy.deepcopy(lf))
        src = f"{case['fname']}(" + ", ".join(py_of_json(a) for a in case["actuals"]) + ")"
        expr = ast.parse(src, mode="eval").body
        from qlasskit import ast2logic
        try:
            ast2logic.translate_expression(expr, env)
            status = "ok"
        except Exception as e:
            status = "rejected:" + type(e).__name__
    return dict(status=status, records=log.records, recs=log.records)


def check_synthetic(ctx, res, cases):
    active = active_flags(ctx)
    reqs, index, outs = [], [], []
    for ci, case in enumerate(cases):
        oc = run_synthetic(case)
        outs.append(oc)
        for ri, rec in enumerate(oc["recs"]):
            reqs.append(requests_for(rec, active))
            index.append((ci, ri))
    replies = ctx.model(reqs) if reqs else []
    stats = res.extra.setdefault("correspondence", {})
    for ci, (case, oc) in enumerate(zip(cases, outs)):
        res.count(case, nontrivial=len(oc["recs"]) > 1, bucket=f"synthetic:{oc['status']}")
    if replies is None:
        return
    for (ci, ri), rep in zip(index, replies):
        rec = outs[ci]["recs"][ri]
        stats["operations"] = stats.get("operations", 0) + 1
        if not reply_matches(rec, rep, stats):
            res.disagree(dict(case=cases[ci], operation={k: rec[k] for k in rec if k != "defs"}),
                         f"model and code differ on a logged {rec['op']} (synthetic definition list)",
                         code=rec.get("after") or rec.get("ok") or rec.get("error"), model=rep)


# --------------------------------------------------------------------------- entry points


def systematic_cases():
    out = []
    for cal in library():
        out += shapes_for(cal)
    out += chain_cases()
    out += oraclize_cases()
    return [c for c in out if c["kind"] == "oraclize" or sum(tbits(t) for _, t in c["params"]) <= 10]


def run(ctx: Ctx) -> Result:
    res = Result("C07")
    res.rule = ("a case counts as non-trivial when both callee and caller compiled (or the property failed) and at "
                "least one bind_function / known-function call was logged and replayed through the model")
    t0 = time.time()
    sysc = systematic_cases()
    check_cases(ctx, res, sysc, "sys")
    ctx.log(f"[C07] systematic {len(sysc)} cases {time.time() - t0:.1f}s")
    n_rand = 5000 if ctx.thorough else 150
    n_syn = 8000 if ctx.thorough else 300
    budget = 600 if ctx.thorough else 45
    done = 0
    while done < n_rand and time.time() - t0 < budget:
        batch = random_cases(ctx.rng, min(50, n_rand - done))
        check_cases(ctx, res, batch, "rnd")
        done += len(batch)
    ctx.log(f"[C07] random {done} cases {time.time() - t0:.1f}s")
    syn = synthetic_cases(ctx.rng, n_syn)
    check_synthetic(ctx, res, syn)
    ctx.log(f"[C07] synthetic {len(syn)} cases {time.time() - t0:.1f}s")
    res.notes.append("oracle = the Python sources executed on all inputs; expressions evaluated by harness/bexp.py")
    res.assumptions.append(
        "C07: sympy's re-canonicalisation inside subs preserves eval (checked per logged operation: structural "
        "equality after canonicalising the model's result by sympy's constructors, else truth tables)")
    res.assumptions.append(
        "C07: the theorems are about the call mechanism on definition lists (bind_function, call site, oraclize's "
        "treatment of the callee); the translation of the rest of the caller is C01's subject and is covered here "
        "only by the end-to-end truth tables")
    return res


def witness_fails(ctx: Ctx, f):
    case = f.get("witness", {}).get("case")
    if not case:
        return False
    oc = run_case(case)
    return oc["status"] == "fail"


def replay(ctx: Ctx, payload):
    first = payload.get("first") or {}
    case = first.get("case", {})
    if "kind" not in case:
        print("no failing input in this replay file (tie-broken record)")
        return 2
    for c in case.get("callees", []):
        print(c["src"])
    print(case.get("caller", f"oraclize(…, {case.get('element')!r}, name={case.get('oname')!r})"))
    oc = run_case(case)
    print("status:", oc["status"], oc.get("error") or "")
    if oc["fail"]:
        print(json.dumps(oc["fail"], indent=1, default=str))
    return 1 if oc["status"] == "fail" else 0
