"""C07 - calling one compiled function from another is function composition.

(a) failing-input search on the real code: (callee, caller) programs over the argument shapes of
    the property (variables, tuple elements, repeated, swapped, several calls, nested calls, local
    variables, expressions, constants, literal tuples, width mismatch, names that collide with the
    callee prefix, callee chains, inline FunctionDef, oraclize wrappers; callees - inline and defs=,
    several statements, tuple/Qint results, nested calls - whose parameters / locals / own names
    look like the library's internal names: `_ret...`, `_<name>`/`__...`, `anc_...`, `TRUE`/`FALSE`,
    `_iftarg...`, `_temptup`, the caller's names, `<callee>_<name>`; NAME HISTORIES of the callee
    environment: one function name bound 1..4 times - duplicates in defs=, an inline def after a defs=
    entry, inline redefinition between two calls - under a plain name, the name of a type, of a builtin,
    of an argument / a local of the caller, of the caller itself, every binding with another body,
    the calls chained so that the definition each call reached shows in the table).  Oracle: the Python
    sources executed with plain bools/ints/tuples on ALL inputs (fixed-width wrap of the declared
    return type); the caller's expressions are evaluated by harness/bexp.py (not sympy); free
    symbols of the caller must be its argument bits or earlier definitions; the callee objects'
    fingerprint (name, args, returns, expressions) must be the same after use.
(b) correspondence: every `Env.bind_function` and every *Known function* call of
    `translate_expression` made while compiling a case is logged (inputs, set orders, outputs)
    and replayed through the Lean model (`c07.bind`, `c07.call`, `c07.oraclize`), exact after
    canonicalising by sympy's constructors, semantic (truth table) otherwise.
(c) attribution: a failing case is a known finding only if the finding is open and active, its flag
    is *implicated* (switching that one flag off changes the model's output on one of the case's
    logged operations) and the quirk-model reproduces every logged operation of the case exactly.
"""
from __future__ import annotations

import ast
import copy
import itertools
import json
import time

from . import bexp
from .common import Ctx, Result

LEVEL = "proof"

FLAGS = {
    "C07-arg-index-from-name": "argIndexFromName",
    "C07-subs-sequential": "subsSequential",
    "C07-rename-sequential": "renameSequential",
    "C07-compress-sequential": "compressSequential",
    "C07-oraclize-renames-callee": "oraclizeRenames",
}

# --------------------------------------------------------------------------- types

B = "bool"


def Q(n):
    return ("Q", n)


def T(*ts):
    return ("T", list(ts))


def is_q(d):
    return isinstance(d, (tuple, list)) and d[0] == "Q"


def is_t(d):
    return isinstance(d, (tuple, list)) and d[0] == "T"


def tsrc(d):
    if d == B:
        return "bool"
    if is_q(d):
        return f"Qint{d[1]}"
    return "Tuple[" + ", ".join(tsrc(x) for x in d[1]) + "]"


def tbits(d):
    if d == B:
        return 1
    if is_q(d):
        return d[1]
    return sum(tbits(x) for x in d[1])


def tvalues(d):
    if d == B:
        return [False, True]
    if is_q(d):
        return list(range(2 ** d[1]))
    return [tuple(v) for v in itertools.product(*[tvalues(x) for x in d[1]])]


def tenc(d, v):
    """value -> bits in bitvec order (tuple elements in order, integers LSB first, wrapped)"""
    if d == B:
        return [bool(v)]
    if is_q(d):
        v = int(v) % (2 ** d[1])
        return [bool((v >> i) & 1) for i in range(d[1])]
    out = []
    for x, y in zip(d[1], v):
        out += tenc(x, y)
    return out


def norm_t(d):
    if d == B:
        return B
    if is_q(d):
        return ("Q", d[1])
    return ("T", [norm_t(x) for x in d[1]])


# --------------------------------------------------------------------------- callee library


def callee(name, args, ret, body, deps=()):
    """args: [(name, type)]; body: list of statement lines (one tab each is added)"""
    src = f"def {name}(" + ", ".join(f"{a}: {tsrc(t)}" for a, t in args) + f") -> {tsrc(ret)}:\n"
    src += "".join(f"\t{l}\n" for l in body)
    return dict(name=name, args=[[a, norm_t(t)] for a, t in args], ret=norm_t(ret), src=src,
                deps=list(deps))


def library(x="x", y="y", z="z", suffix=""):
    s = suffix
    return [
        callee(f"andf{s}", [(x, B), (y, B)], B, [f"return {x} and {y}"]),
        callee(f"nimp{s}", [(x, B), (y, B)], B, [f"return {x} and not {y}"]),
        callee(f"sel3{s}", [(x, B), (y, B), (z, B)], B, [f"return {y} if {x} else {z}"]),
        callee(f"pairf{s}", [(x, B), (y, B)], T(B, B), [f"return ({x} and not {y}, {x} ^ {y})"]),
        callee(f"multi{s}", [(x, B), (y, B)], B, [f"c = not {y}", f"d = c ^ {x}", f"return d and {x}"]),
        callee(f"incq{s}", [(x, Q(2))], Q(2), [f"return {x} + 1"]),
        callee(f"gtq{s}", [(x, Q(2)), (y, Q(2))], B, [f"return {x} > {y}"]),
        callee(f"mixq{s}", [(x, Q(2)), (y, B)], Q(2), [f"return {x} + 1 if {y} else {x}"]),
        callee(f"tsel{s}", [(x, T(B, B))], B, [f"return {x}[0] and not {x}[1]"]),
        callee(f"tqb{s}", [(x, T(Q(2), B))], B, [f"return ({x}[0] == 2) ^ {x}[1]"]),
        callee(f"xorq4{s}", [(x, Q(4)), (y, Q(4))], Q(4), [f"return ({x} ^ {y}) + 1"]),
        callee(f"eqq{s}", [(x, Q(2)), (y, Q(2))], B, [f"return {x} == {y}"]),
    ]


# --------------------------------------------------------------------------- caller builder

VARS = ["a", "b", "c", "d", "e", "g", "h", "aa", "bb", "cc", "dd", "ee"]


class Builder:
    """collects caller parameters; hands out Python expressions of a wanted type"""

    def __init__(self, names=None):
        self.params = []
        self.pool = list(names or VARS)

    def fresh(self, t, name=None):
        n = name or self.pool.pop(0)
        self.params.append([n, norm_t(t)])
        return n

    def bits(self):
        return sum(tbits(t) for _, t in self.params)


def caller_src(params, ret, body, name="caller"):
    src = f"def {name}(" + ", ".join(f"{a}: {tsrc(t)}" for a, t in params) + f") -> {tsrc(ret)}:\n"
    return src + "".join(f"\t{l}\n" for l in body)


def mk_case(callees, params, ret, body, shape, kind="defs", **kw):
    d = dict(kind=kind, shape=shape, callees=callees, params=params, ret=norm_t(ret),
             caller=caller_src(params, ret, body))
    d.update(kw)
    return d


def ret_body(cal, call, tag=""):
    """statements returning the result of `call`, and the caller's return type"""
    r = cal["ret"]
    if is_t(r):
        return [f"r{tag} = {call}", f"return r{tag}"], r
    return [f"return {call}"], r


def combine2(cal, c1, c2):
    r = cal["ret"]
    if r == B:
        return [f"return {c1} ^ {c2}"], B
    if is_q(r):
        return [f"u = {c1}", f"v = {c2}", "return u == v"], B
    return [f"u = {c1}", f"v = {c2}", "return u[0] ^ v[1]"], B


def shapes_for(cal, rng=None):
    """systematic argument shapes for one callee -> list of cases"""
    out = []
    nm = cal["name"]
    fargs = cal["args"]
    types = [t for _, t in fargs]

    def call(actuals, f=nm):
        return f"{f}(" + ", ".join(actuals) + ")"

    # vars
    b = Builder()
    acts = [b.fresh(t) for t in types]
    body, r = ret_body(cal, call(acts))
    out.append(mk_case([cal], b.params, r, body, "vars"))
    # swapped / repeated among same-typed formals
    if len(types) >= 2 and len({json.dumps(t) for t in types}) == 1:
        b = Builder()
        acts = [b.fresh(t) for t in types]
        body, r = ret_body(cal, call(list(reversed(acts))))
        out.append(mk_case([cal], b.params, r, body, "swapped"))
        b = Builder()
        v = b.fresh(types[0])
        w = b.fresh(types[0])
        body, r = ret_body(cal, call([v] * len(types)))
        out.append(mk_case([cal], b.params, r, body, "repeated"))
        # several calls
        b = Builder()
        acts = [b.fresh(t) for t in types]
        body, r = combine2(cal, call(acts), call(list(reversed(acts))))
        out.append(mk_case([cal], b.params, r, body, "two-calls"))
        body, r = combine2(cal, call([acts[0]] * len(types)), call(acts))
        out.append(mk_case([cal], b.params, r, body, "two-calls-repeated"))
        # names colliding with the callee prefix
        b = Builder()
        acts = [b.fresh(t, f"{nm}_{a}") for a, t in fargs]
        body, r = ret_body(cal, call(list(reversed(acts))))
        out.append(mk_case([cal], b.params, r, body, "prefix-names-swapped"))
        b = Builder()
        acts = [b.fresh(t, f"{nm}_{a}") for a, t in reversed(fargs)]
        body, r = ret_body(cal, call(acts))
        out.append(mk_case([cal], b.params, r, body, "prefix-names-crossed"))
    b = Builder()
    acts = [b.fresh(t, f"{nm}_{a}") for a, t in fargs]
    body, r = ret_body(cal, call(acts))
    out.append(mk_case([cal], b.params, r, body, "prefix-names-same"))
    # tuple elements
    if sum(tbits(t) for t in types) <= 6:
        b = Builder()
        tv = b.fresh(T(*types) if len(types) > 1 else T(types[0], B))
        body, r = ret_body(cal, call([f"{tv}[{i}]" for i in range(len(types))]))
        out.append(mk_case([cal], b.params, r, body, "tuple-elems"))
        b = Builder()
        tv = b.fresh(T(B, *reversed(types)))
        n = len(types)
        body, r = ret_body(cal, call([f"{tv}[{n - i}]" for i in range(n)]))
        out.append(mk_case([cal], b.params, r, body, "tuple-elems-reversed"))
        b = Builder()
        tv = b.fresh(T(T(*types) if len(types) > 1 else T(types[0], B), B))
        body, r = ret_body(cal, call([f"{tv}[0][{i}]" for i in range(len(types))]))
        out.append(mk_case([cal], b.params, r, body, "nested-tuple-elems"))
    # local variables
    b = Builder()
    lines, acts = [], []
    for i, t in enumerate(types):
        v = b.fresh(t)
        if t == B:
            w = b.fresh(B)
            lines.append(f"t{i} = {v} ^ {w}")
        elif is_q(t):
            lines.append(f"t{i} = {v} ^ 1")
        else:
            lines.append(f"t{i} = {v}")
        acts.append(f"t{i}")
    body, r = ret_body(cal, call(acts))
    out.append(mk_case([cal], b.params, r, lines + body, "local-vars"))
    # expressions / constants as arguments
    b = Builder()
    acts = []
    for t in types:
        v = b.fresh(t)
        if t == B:
            w = b.fresh(B)
            acts.append(f"({v} and not {w})")
        elif is_q(t):
            acts.append(f"({v} ^ 2)")
        else:
            acts.append("(" + ", ".join(f"{v}[{len(t[1]) - 1 - i}]" for i in range(len(t[1]))) + ")"
                        if len({json.dumps(x) for x in t[1]}) == 1 else v)
    body, r = ret_body(cal, call(acts))
    out.append(mk_case([cal], b.params, r, body, "expr-args"))
    b = Builder()
    acts = []
    first = True
    for t in types:
        if first or is_t(t):
            acts.append(b.fresh(t))
            first = False
        else:
            acts.append("True" if t == B else "1")
    b.fresh(B) if not b.params else None
    body, r = ret_body(cal, call(acts))
    out.append(mk_case([cal], b.params, r, body, "const-args"))
    # literal tuple for tuple formals
    if any(is_t(t) for t in types):
        b = Builder()
        acts = []
        for t in types:
            if is_t(t):
                acts.append("(" + ", ".join(b.fresh(x) for x in t[1]) + ")")
            else:
                acts.append(b.fresh(t))
        body, r = ret_body(cal, call(acts))
        out.append(mk_case([cal], b.params, r, body, "literal-tuple"))
    # nested call
    if json.dumps(cal["ret"]) == json.dumps(types[0]):
        b = Builder()
        acts = [b.fresh(t) for t in types]
        inner = call(acts)
        body, r = ret_body(cal, call([inner] + list(reversed(acts[1:]))))
        out.append(mk_case([cal], b.params, r, body, "nested-call"))
    # width mismatch
    if any(is_q(t) for t in types):
        for delta in (2, -2):
            b = Builder()
            acts = []
            ok = True
            for t in types:
                if is_q(t):
                    if t[1] + delta < 2:
                        ok = False
                        break
                    acts.append(b.fresh(Q(t[1] + delta)))
                else:
                    acts.append(b.fresh(t))
            if ok:
                body, r = ret_body(cal, call(acts))
                out.append(mk_case([cal], b.params, r, body, "width-wider" if delta > 0 else "width-narrower"))
    # arity
    b = Builder()
    acts = [b.fresh(t) for t in types]
    body, r = ret_body(cal, call(acts[:-1] if len(acts) > 1 else acts + acts))
    out.append(mk_case([cal], b.params, r, body, "arity"))
    # inline FunctionDef
    b = Builder()
    acts = [b.fresh(t) for t in types]
    inner = ["\t" + l if i else l for i, l in enumerate(cal["src"].rstrip("\n").split("\n"))]
    inner = cal["src"].rstrip("\n").split("\n")
    body, r = ret_body(cal, call(list(reversed(acts)) if len({json.dumps(t) for t in types}) == 1 else acts))
    out.append(mk_case([], b.params, r, inner + body, "inline", kind="inline"))
    return out


def chain_cases():
    """a callee that itself calls a callee; caller uses both"""
    out = []
    f = callee("nimpc", [("x", B), ("y", B)], B, ["return x and not y"])
    g = callee("gch", [("x", B), ("y", B)], B, ["return nimpc(y, x) ^ x"], deps=["nimpc"])
    b = Builder()
    p, q = b.fresh(B), b.fresh(B)
    out.append(mk_case([f, g], b.params, B, [f"return gch({p}, {q})"], "chain"))
    out.append(mk_case([f, g], b.params, B, [f"return gch({q}, {p}) ^ nimpc({p}, {q})"], "chain-both"))
    out.append(mk_case([f, g], b.params, B, [f"return gch(nimpc({q}, {p}), {p})"], "chain-nested"))
    # same formal names as the caller's and as the other callee's prefixed names
    f2 = callee("hh", [("x", B), ("hh_x", B)], B, ["return x and not hh_x"])
    out.append(mk_case([f2], [["a", B], ["b", B]], B, ["return hh(a, b)"], "callee-own-prefix"))
    out.append(mk_case([f2], [["x", B], ["hh_x", B]], B, ["return hh(hh_x, x)"], "callee-own-prefix-swapped"))
    # inner function in inner function, inner function shadowing nothing
    src = ["def in1(b: bool, c: bool) -> bool:", "\tdef in2(b: bool) -> bool:", "\t\treturn not b",
           "\treturn in2(c) and b", "return in1(q, p) ^ in1(p, p)"]
    out.append(mk_case([], [["p", B], ["q", B]], B, src, "inline-nested", kind="inline"))
    # inline callees that re-assign a local variable / their own parameters (the callee's definition list
    # then binds one symbol several times: bind_function must compress it in order, latest binding wins)
    src = ["def rl(a: bool, b: bool) -> bool:", "\tc = a ^ b", "\tc = c and a", "\treturn c or b", "return rl(q, p)"]
    out.append(mk_case([], [["p", B], ["q", B]], B, src, "inline-reassign-local", kind="inline"))
    src = ["def rp(a: bool, b: bool) -> bool:", "\ta = a ^ b", "\tb = a and b", "\treturn a or b", "return rp(p, q)"]
    out.append(mk_case([], [["p", B], ["q", B]], B, src, "inline-reassign-param", kind="inline"))
    src = ["def rp2(a: bool, b: bool, c: bool) -> bool:", "\tb = b ^ a", "\ta = a and c", "\tc = b or a", "\tb = not c",
           "\treturn (a ^ b) or c", "return rp2(q, p, q) ^ rp2(p, p, q)"]
    out.append(mk_case([], [["p", B], ["q", B]], B, src, "inline-reassign-param", kind="inline"))
    src = ["def ri(a: Qint[2], b: Qint[2]) -> Qint[2]:", "\ta = a + b", "\tb = a ^ b", "\treturn a + b", "return ri(q, p)"]
    out.append(mk_case([], [["p", Q(2)], ["q", Q(2)]], Q(2), src, "inline-reassign-param", kind="inline"))
    return out


def oraclize_cases():
    out = []
    lib = {c["name"]: c for c in library()}
    for nm, elems in (("incq", [0, 1, 3]), ("tsel", [True, False]), ("tqb", [True])):
        for el in elems:
            out.append(dict(kind="oraclize", shape="oraclize", callees=[lib[nm]], element=el, oname="oracle"))
    out.append(dict(kind="oraclize", shape="oraclize-name", callees=[lib["incq"]], element=2, oname="incq"))
    orc = callee("oracle", [("x", Q(2))], Q(2), ["return x + 1"])
    out.append(dict(kind="oraclize", shape="oraclize-callee-named-oracle", callees=[orc], element=2, oname="oracle"))
    orc2 = callee("orq", [("v", T(B, B))], B, ["return v[0] ^ v[1]"])
    out.append(dict(kind="oraclize", shape="oraclize-same-argname", callees=[orc2], element=True, oname="oracle"))
    return out


# --------------------------------------------------------------------------- names that look like the library's own
#
# The names used inside a callee do not matter: the same callee is written with parameters / locals /
# function names taken from the library's internal naming conventions (the return bits `_ret...`, the
# rewriter's temporaries `__<name>` / `_iftarg...` / `_temptup`, the compiler's `anc_...` / `TRUE` /
# `FALSE`, the prefix `<callee>_<name>` bind_function puts on the callee's symbols, the caller's own
# names).  Any place of the call mechanism that identifies a bit BY NAME instead of by position goes
# wrong on one of these; the oracle (the Python sources executed with plain values) never looks at names.

HOSTILE_FAMILIES = [
    ("ret", ["_ret_lo", "_ret0", "_retx", "_ret_0", "_ret1", "_ret_", "_ret"]),
    ("under", ["_{L1}", "_{P1}", "_{P2}", "__{L1}", "__{P1}"]),
    ("anc", ["anc_0", "anc_1", "anc"]),
    ("const", ["TRUE", "FALSE", "true"]),
    ("rewriter", ["_iftarg2", "_iftarg0", "_iftarg", "_iftarg3", "_temptup", "_iftarg1"]),
    ("caller", ["p", "q", "u", "v", "caller", "caller_p"]),
    ("prefix", ["{f}_{P1}", "{f}__ret", "{f}_{P2}", "{f}_{L1}", "{f}__ret_0", "{f}___{P1}", "{f}_{f}", "{f}"]),
    ("misc", ["ret", "_re", "I", "E", "S", "N", "Q"]),
]
HOSTILE_FNAMES = ["hc_", "_ret_h", "anc_h", "_iftarg_h", "hc__ret", "caller_h", "TRUE_"]
BENIGN = dict(P1="x", P2="y", L1="t", L2="s")


def hostile_templates():
    """callee bodies with several statements; {P1},{P2} parameters, {L1},{L2} locals, {k} the inner function"""
    return [
        dict(id="q-tmp", args=[Q(2), Q(2)], ret=Q(2), slots=["L1", "P1", "P2"],
             body=["{L1} = {P1} ^ {P2}", "return {L1} + {P1}"]),
        dict(id="b-two", args=[B, B], ret=B, slots=["L1", "L2", "P1", "P2"],
             body=["{L1} = not {P2}", "{L2} = {L1} ^ {P1}", "return {L2} and {P1}"]),
        dict(id="t-locals", args=[B, B], ret=T(B, B), slots=["L1", "L2", "P1", "P2"],
             body=["{L1} = {P1} and not {P2}", "{L2} = {P1} ^ {P2}", "return ({L1}, {L2})"]),
        dict(id="tq", args=[Q(2), B], ret=T(Q(2), B), slots=["L1", "L2", "P1", "P2"],
             body=["{L1} = {P1} + 1 if {P2} else {P1}", "{L2} = {L1} == 2", "return ({L1}, {L2} ^ {P2})"]),
        dict(id="b-reassign", args=[B, B], ret=B, slots=["L1", "P1", "P2"],
             body=["{L1} = {P1} ^ {P2}", "{L1} = {L1} and {P1}", "{P2} = {L1} or {P2}", "return {P2} ^ {P1}"]),
        dict(id="b-if", args=[B, B], ret=B, slots=["L1", "P1", "P2"],
             body=["{L1} = {P2}", "if {P1}:", "\t{L1} = not {P2}", "return {L1} ^ {P1}"]),
        dict(id="b-if-else", args=[B, B], ret=B, slots=["L1", "L2", "P1", "P2"],
             body=["{L1} = {P2}", "{L2} = {P1}", "if {P1} ^ {P2}:", "\t{L1} = not {P2}", "else:", "\t{L2} = {P2}",
                   "if {L2}:", "\t{L1} = {L1} ^ {P1}", "return {L1} or ({L2} and {P2})"]),
        dict(id="b-stale", args=[B, B], ret=B, slots=["L1", "L2", "P1", "P2"],
             body=["{L1} = {P1} ^ {P2}", "{L2} = {L1}", "{L1} = not {P2}", "{P1} = {L2} and {P2}",
                   "return ({L2} ^ {L1}) or {P1}"]),
        dict(id="b-unpack", args=[B, B], ret=B, slots=["L1", "L2", "P1", "P2"],
             body=["{L1} = {P1} ^ {P2}", "{L2}, {P2} = {P2}, {L1}", "return ({L1} and {L2}) ^ {P2} ^ {P1}"]),
        dict(id="t-unpack", args=[T(B, B), B], ret=T(B, B), slots=["L1", "L2", "P1", "P2"],
             body=["{L1}, {L2} = {P1}", "{L2}, {L1} = {L1} ^ {P2}, {L2}", "return ({L1}, {L2} and {P1}[0])"]),
        dict(id="q-boollocal", args=[Q(2), Q(2)], ret=Q(2), slots=["L1", "L2", "P1", "P2"],
             body=["{L1} = {P1} == {P2}", "{L2} = {P1} + 1", "return {L2} if {L1} else {P2}"]),
        dict(id="nested", args=[B, B], ret=B, slots=["L1", "L2", "P1", "P2"],
             inner=dict(args=[B], ret=B, body=["{L1} = not {P1}", "return {L1}"]),
             body=["{L1} = {k}({P2}) ^ {P1}", "{L2} = {k}({L1})", "return {L2} and {P1}"]),
        dict(id="nested-q", args=[Q(2), Q(2)], ret=Q(2), slots=["L1", "L2", "P1", "P2"],
             inner=dict(args=[Q(2), Q(2)], ret=Q(2), body=["{L1} = {P2} + 1", "return {L1} ^ {P1}"]),
             body=["{L1} = {k}({P2}, {P1})", "{L2} = {k}({L1}, {P1}) + 1", "return {L2} ^ {P2}"]),
    ]


def hostile_shapes(tp, f):
    """caller shapes for callee f of template tp over the caller's parameters p, q -> [(shape, ret, body)]"""
    t1, t2 = tp["args"]
    r = tp["ret"]
    same = json.dumps(norm_t(t1)) == json.dumps(norm_t(t2))
    sw = f"{f}(q, p)" if same else f"{f}(p, q)"
    st = f"{f}(p, q)"
    out = [("plain", r, [f"return {sw}"]), ("via-local", r, [f"u = {st}", "return u"])]
    # the caller binds locals BEFORE the (inline) definition of the callee and uses them after the call
    pre = ["u = not p" if t1 == B else "u = p ^ 1" if is_q(t1) else "u = p", "v = q"]
    if r == B:
        out.append(("prelude", B, pre + [f"return {f}(u, v) ^ (v if u else q)" if t1 == B else f"return {f}(u, v) ^ v"]))
    elif is_q(r):
        out.append(("prelude", r, pre + [f"return {f}(u, v) + u"]))
    else:
        out.append(("prelude", r, pre + [f"t = {f}(u, v)", "return t"]))
    if r == B:
        out.append(("in-expr", B, [f"return {st} ^ q"]))
        out.append(("in-compare", B, [f"return not {sw}"]))
        out.append(("tuple-pack", T(B, B), [f"return ({st}, {sw})"] if same else [f"return ({st}, q)"]))
    elif is_q(r):
        out.append(("in-expr", r, [f"return {sw} + 1"]))
        out.append(("in-compare", B, [f"return {sw} == 1"]))
        out.append(("tuple-pack", T(r, r), [f"return ({st}, {sw})"]))
    elif json.dumps(norm_t(r)) == json.dumps(norm_t(T(B, B))):
        out.append(("in-expr", B, [f"u = {st}", "return u[1] and not u[0]"]))
        out.append(("in-compare", B, [f"u = {sw}", "return u[0] == u[1]"]))
    else:
        out.append(("in-expr", Q(2), [f"u = {st}", "return u[0] + 1 if u[1] else u[0]"]))
        out.append(("in-compare", B, [f"u = {st}", "return (u[0] == 1) ^ u[1]"]))
    if json.dumps(norm_t(r)) == json.dumps(norm_t(t1)):
        out.append(("two-calls", r, [f"u = {st}", f"return {f}(u, {'p' if same else 'q'})"]))
        out.append(("nested-call", r, [f"return {f}({st}, q)"]))
    elif is_t(r) and same:
        out.append(("two-calls", B, [f"u = {st}", f"v = {f}(q, p)", "return u[0] ^ v[1]"]))
    else:
        out.append(("two-calls", r, [f"u = {st}", f"v = {f}(u[0], u[1])", "return v"]))
    return out


def hostile_resolve(pattern, f, names):
    return pattern.format(f=f, **names)


def hostile_case(tp, names, shape_i, kind, f="hc", k="kc"):
    """one case: template, slot names (dict P1,P2,L1,L2), caller shape index, kind in inline|defs|defs-inline"""
    nm = dict(names)
    fmt = dict(nm, k=k)
    args = list(zip([nm["P1"], nm["P2"]], tp["args"]))
    body = [l.format(**fmt) for l in tp["body"]]
    cals = []
    inner = tp.get("inner")
    if inner is not None:
        iargs = list(zip([nm["P1"], nm["P2"]], inner["args"]))
        ic = callee(k, iargs, inner["ret"], [l.format(**fmt) for l in inner["body"]])
        if kind == "defs":
            cals.append(ic)
        else:
            body = ic["src"].rstrip("\n").split("\n") + body
    cal = callee(f, args, tp["ret"], body, deps=[k] if (inner is not None and kind == "defs") else [])
    shapes = hostile_shapes(tp, f)
    shape, ret, cbody = shapes[shape_i % len(shapes)]
    params = [["p", norm_t(tp["args"][0])], ["q", norm_t(tp["args"][1])]]
    tag = f"hostile-{tp['id']}"
    info = dict(nm, f=f, k=k, caller_shape=shape, callee_kind=kind)
    if kind == "inline":
        npre = 2 if shape == "prelude" else 0
        return mk_case([], params, ret, cbody[:npre] + cal["src"].rstrip("\n").split("\n") + cbody[npre:], tag,
                       kind="inline", hostile=info)
    return mk_case(cals + [cal], params, ret, cbody, tag, kind="defs", hostile=info)


def hostile_names(tp, slot, pattern, f="hc"):
    """the slot assignment with `pattern` at `slot`, or None when it is not a usable assignment"""
    try:
        name = pattern.format(f=f, **BENIGN)
    except KeyError:
        return None
    nm = dict(BENIGN)
    if name in nm.values():
        return None
    nm[slot] = name
    return nm


def hostile_kinds(tp):
    return ["inline", "defs", "defs-inline"] if "inner" in tp else ["inline", "defs"]


def hostile_systematic(thorough=False):
    """the same for every seed.  (i) the `_ret...` names (the return-bit convention) at every slot of every template,
    every caller shape, every kind; (ii) every other name x slot, templates / shapes / kinds by rotation (quick: two
    templates per name x slot; thorough: all); (iii) all slots hostile at once, families mixed; (iv) hostile
    function names"""
    tps = hostile_templates()
    out = []
    seen = set()

    def add(c):
        key = (c["caller"], json.dumps([x["src"] for x in c["callees"]]))
        if key not in seen:
            seen.add(key)
            out.append(c)

    # (i)
    for ti, tp in enumerate(tps):
        nsh = len(hostile_shapes(tp, "hc"))
        for slot in tp["slots"]:
            for pat in (["_ret_lo", "_ret0"] if slot.startswith("L") else ["_ret_lo"]):
                nm = hostile_names(tp, slot, pat)
                for si in range(nsh):
                    for ki, kind in enumerate(hostile_kinds(tp)):
                        if thorough or (slot.startswith("L") and pat == "_ret_lo") or (si + ti + ki) % 4 == 0:
                            add(hostile_case(tp, nm, si, kind))
    # (ii)
    i = 0
    for fam, pats in HOSTILE_FAMILIES:
        for pat in pats:
            for sl in ("L1", "L2", "P1", "P2"):
                i += 1
                picks = range(len(tps)) if thorough else [(i + j * 4) % len(tps) for j in range(2)]
                for j, ti in enumerate(picks):
                    tp = tps[ti]
                    slot = sl if sl in tp["slots"] else tp["slots"][0]
                    nm = hostile_names(tp, slot, pat)
                    if nm is None:
                        continue
                    kinds = hostile_kinds(tp)
                    add(hostile_case(tp, nm, i + j, kinds[(i + j) % len(kinds)]))
    # (iii)
    flat = [p for _, ps in HOSTILE_FAMILIES for p in ps if "{" not in p and p not in ("_ret", "p", "q", "u", "v")]
    for n in range(len(flat)):
        tp = tps[n % len(tps)]
        nm = dict(P1=flat[n], P2=flat[(n + 7) % len(flat)], L1=flat[(n + 13) % len(flat)], L2=flat[(n + 22) % len(flat)])
        if len(set(nm.values())) < 4:
            continue
        kinds = hostile_kinds(tp)
        add(hostile_case(tp, nm, n, kinds[n % len(kinds)]))
    # (v) the names the rewriter generates, in callees that make it generate them (if statements, unpacking)
    for tp in tps:
        if tp["id"] not in ("b-if", "b-if-else", "b-unpack", "t-unpack"):
            continue
        for n, pat in enumerate(["_iftarg2", "_iftarg3", "_iftarg", "_iftarg0", "_temptup"]):
            for m, slot in enumerate(tp["slots"]):
                nm = hostile_names(tp, slot, pat)
                for si in ((2 * n + m,) if not thorough else range(len(hostile_shapes(tp, "hc")))):
                    for kind in hostile_kinds(tp):
                        add(hostile_case(tp, nm, si, kind))
    # (iv)
    for n, fn in enumerate(HOSTILE_FNAMES):
        for j in range(2):
            tp = tps[(n * 2 + j) % len(tps)]
            kinds = hostile_kinds(tp)
            nm = dict(BENIGN)
            if j:
                nm["L1"] = "_ret_lo"
            add(hostile_case(tp, nm, n + j, kinds[(n + j) % len(kinds)], f=fn, k=fn + "k"))
    return out


def hostile_random_name(rng, f, others):
    r = rng.random()
    dig = str(rng.randint(0, 12))
    if r < 0.3:
        return "_ret" + rng.choice(["_lo", "_hi", "x", "_", "val", "_tmp", "", "__"]) + rng.choice(["", "", dig])
    if r < 0.4:
        return rng.choice(["_", "__", "___"]) + rng.choice(others + ["w", "tmp"])
    if r < 0.5:
        return rng.choice(["anc_", "anc", "anc_a"]) + dig
    if r < 0.6:
        return rng.choice(["_iftarg", "_iftarg_", "_temptup", "TRUE", "FALSE", "TRUE_", "FALSE" + dig, "_iftarg" + dig])
    if r < 0.75:
        return f + rng.choice(["_", "__", "___"]) + rng.choice(others + ["_ret", "ret", "_ret.0".replace(".", "_"), f])
    if r < 0.9:
        return rng.choice(["p", "q", "u", "v", "caller", "caller_p", "caller_q", "caller__ret"])
    return rng.choice(["w", "z", "m", "tmp", "ret", "I", "E", "S", "N"]) + rng.choice(["", dig])


def hostile_random(rng, count):
    """randomised variants: random template (or a random boolean body), random hostile names at a random subset of
    the slots, random function names, caller shape and kind"""
    from . import progs
    tps = hostile_templates()
    out = []
    tries = 0
    while len(out) < count and tries < count * 20:
        tries += 1
        if rng.random() < 0.3:
            # random boolean body over the slots
            nst = rng.randint(1, 3)
            loc = ["{L1}", "{L2}"]
            avail = ["{P1}", "{P2}"]
            body = []
            for s in range(nst):
                tgt = rng.choice(loc + ([rng.choice(avail)] if rng.random() < 0.2 else []))
                body.append(f"{tgt} = {progs.gen_bool_expr(rng, avail, 2)}")
                if tgt not in avail:
                    avail.append(tgt)
            if rng.random() < 0.5:
                body.append(f"return {progs.gen_bool_expr(rng, avail, 2)}")
                ret = B
            else:
                body.append(f"return ({progs.gen_bool_expr(rng, avail, 2)}, {progs.gen_bool_expr(rng, avail, 1)})")
                ret = T(B, B)
            tp = dict(id="rnd-body", args=[B, B], ret=ret, slots=["L1", "L2", "P1", "P2"], body=body)
        else:
            tp = rng.choice(tps)
        f = rng.choice(["hc", "hc", "hc", "hq"] + HOSTILE_FNAMES)
        k = rng.choice(["kc", f + "k", f + "_k", "_ret_k"])
        nm = dict(BENIGN)
        slots = [s for s in ("L1", "L2", "P1", "P2") if rng.random() < 0.55] or ["L1"]
        for sl in slots:
            nm[sl] = hostile_random_name(rng, f, [v for kk, v in BENIGN.items() if kk != sl])
        if len(set(nm.values()) | {f, k}) < 6:
            continue
        kind = rng.choice(hostile_kinds(tp))
        try:
            c = hostile_case(tp, nm, rng.randint(0, 20), kind, f=f, k=k)
            ast.parse(c["caller"])
        except (SyntaxError, KeyError, IndexError):
            continue
        c["shape"] = "rnd-" + c["shape"]
        out.append(c)
    return out


# --------------------------------------------------------------------------- name histories of the callee environment
#
# Which definition does a call reach?  In Python: the most recent binding of the name at the moment of the call (an
# inline `def` shadows an entry of defs=, a later entry of defs= replaces an earlier one of the same name, a second
# inline `def` replaces the first; a definition called like a type, a builtin, an argument, a local or the caller
# itself shadows that).  A history is a sequence of events over ONE function name: D = an entry of defs=, I = an inline
# `def` at this point of the caller, C = a call.  Every binding has a semantically different body, the calls are
# chained (the result of one call is an argument of the next) so that the choice of definition at every call is
# visible in the caller's truth table.  The oracle is the source executed by CPython; a refusal is never a failure.

HISTORIES = [
    # two bindings
    "DD|C", "D|IC", "ICIC", "IIC", "D|ICC", "ICCIC", "DD|CC",
    # three and four bindings
    "DDD|C", "DD|IC", "D|IIC", "D|ICIC", "ICICIC", "ICIIC", "IIIC", "DD|ICIC", "IICIC",
]
# (a call BEFORE an inline `def` of the same name has no Python meaning - the name is a local of the caller from its
# first line, the call raises UnboundLocalError whatever defs= holds - so no history has a C between a D and an I)
HISTORIES_ONE = ["IC", "D|C", "ICC", "D|CC"]  # one binding (the name itself is the subject)

NAMES_TYPE = ["Qint2", "Qint", "bool", "Qint4", "Qfixed", "Qchar", "Qlist", "Tuple"]
NAMES_BUILTIN = ["len", "max", "min", "sum", "any", "all", "ord", "chr", "int", "float", "print", "range", "abs"]
NAMES_SCOPE = ["w", "u", "caller"]  # an argument (never read), a local (copied before), the caller itself
NAMES_PLAIN = ["h", "step", "f2"]


def history_profiles():
    """callee signatures; `bodies` are pairwise different functions; first/next give the chained actuals"""
    return dict(
        bb=dict(args=[("x", B), ("y", B)], ret=B, params=[["p", B], ["q", B], ["r", B]],
                bodies=["x and y", "x ^ y", "x or y", "x and not y", "not (x or y)", "y if x else not y"],
                first="{f}(p, q)", nxt=["{f}({t}, r)", "{f}(q, {t})", "{f}({t}, p)"]),
        qq=dict(args=[("x", Q(2)), ("y", Q(2))], ret=Q(2), params=[["p", Q(2)], ["q", Q(2)], ["r", Q(2)]],
                bodies=["x ^ y", "x + y", "(x ^ y) + 1", "x + 1", "y + y"],
                first="{f}(p, q)", nxt=["{f}({t}, r)", "{f}(q, {t})", "{f}({t}, p)"]),
        b=dict(args=[("x", B)], ret=B, params=[["p", B], ["q", B], ["r", B]],
               bodies=["not x", "x", "x ^ x"],
               first="{f}(p) ^ q", nxt=["{f}({t}) and r", "{f}({t} ^ q) or p", "{f}({t}) ^ r"]),
        q=dict(args=[("x", Q(2))], ret=Q(2), params=[["p", Q(2)], ["q", Q(2)]],
               bodies=["x + 1", "x ^ 2", "x + 3", "x ^ 1"],
               first="{f}(p)", nxt=["{f}({t} ^ q)", "{f}({t}) + q", "{f}({t} + p)"]),
        # constant actuals (a call of a name that is also a type is a typecast of a constant for the library)
        qc=dict(args=[("x", Q(2))], ret=Q(2), params=[["p", Q(2)], ["q", Q(2)]],
                bodies=["x + 1", "x ^ 2", "x + 3", "x ^ 1"],
                first="{f}(1) ^ p", nxt=["{f}(2) + {t}", "{f}(3) ^ {t} ^ q", "{f}(0) + {t}"]),
        t=dict(args=[("x", T(B, B))], ret=B, params=[["pp", T(B, B)], ["q", B], ["r", B]],
               bodies=["x[0] and x[1]", "x[0] ^ x[1]", "x[0] or x[1]", "x[0] and not x[1]"],
               first="{f}(pp)", nxt=["{f}(({t}, q))", "{f}((r, {t}))", "{f}(({t}, pp[0]))"]),
        tq=dict(args=[("x", T(Q(2), Q(2)))], ret=Q(2), params=[["pp", T(Q(2), Q(2))], ["q", Q(2)]],
                bodies=["x[0] ^ x[1]", "x[0] + x[1]", "x[1] + 1", "x[0]"],
                first="{f}(pp)", nxt=["{f}(({t}, q))", "{f}((q, {t}))", "{f}(({t}, pp[0]))"]),
    )


def history_case(hist, f, prof_id, bodies, tag="history", distinct_names=False, first_wins=False):
    """the (callees, caller) program of one history.  bodies[i] = body of the i-th binding.  distinct_names: every
    binding gets its own name and every call names the binding Python would reach (the control: never refused)"""
    prof = history_profiles()[prof_id]
    params = [list(x) for x in prof["params"]]
    if f in ("w",):
        params.append(["w", B])  # an argument that is never read: the definition takes its name
    pre = []
    if f == "u":
        # a local of the caller bound BEFORE the definition takes its name; its value was copied first
        t0 = params[0][1]
        pre = ["u = not p" if t0 == B else "u = p ^ 1" if is_q(t0) else "u = pp"]
    cals, body = [], list(pre)
    nb = ncall = 0
    cur = None  # name a call reaches right now
    last = None
    evs = hist.replace("|", "")
    for ev in evs:
        if ev in "DI":
            name = f"{f}_{nb + 1}" if distinct_names else f
            c = callee(name, prof["args"], prof["ret"], [f"return {bodies[nb]}"])
            nb += 1
            cur = name if not (first_wins and cur) else cur
            if ev == "D":
                cals.append(c)
            else:
                body += c["src"].rstrip("\n").split("\n")
        else:
            pat = prof["first"] if last is None else prof["nxt"][(ncall - 1) % len(prof["nxt"])]
            body.append(f"t{ncall} = " + pat.format(f=cur, t=last))
            last = f"t{ncall}"
            ncall += 1
    body.append(f"return {last}")
    info = dict(hist=hist, f=f, profile=prof_id, bodies=list(bodies[:nb]), bindings=nb, calls=ncall,
                control=distinct_names)
    kind = "defs" if cals else "inline"
    return mk_case(cals, params, prof["ret"], body, f"{tag}-{hist}", kind=kind, history=info)


def history_visible(case):
    """does the choice of definition show in the truth table: the Python meaning (latest binding wins) differs from
    'every call reaches the FIRST binding'.  Computed by CPython on the control program (distinct names)"""
    h = case["history"]
    if h["bindings"] < 2:
        return True
    try:
        tabs = []
        for first_wins in (False, True):
            c = history_case(h["hist"], "zz", h["profile"], h["bodies"], distinct_names=True, first_wins=first_wins)
            src = c["caller"]
            ns = py_namespace()
            for d in c["callees"]:
                oexec(d["src"], ns)
                ns[d["name"]] = wrapped(ns[d["name"]], d["ret"])
            oexec(src, ns)
            tabs.append(table_of_python(ns["caller"], c["params"], c["ret"]))
        return tabs[0] != tabs[1]
    except Exception:
        return False


def history_python_ok(case):
    """has the program a Python meaning at all (a name of the caller's scope can make a call unreachable)"""
    try:
        ns = py_namespace()
        for d in case["callees"]:
            oexec(d["src"], ns)
            ns[d["name"]] = wrapped(ns[d["name"]], d["ret"])
        oexec(case["caller"], ns)
        table_of_python(ns["caller"], case["params"], case["ret"])
        return True
    except Exception:
        return False


def history_distribution(sysc, rnd):
    """the input distribution of the name-history family, for the evidence file"""
    def fam(c):
        f = c["history"]["f"]
        return ("type" if f in NAMES_TYPE or f.startswith("Q") or f == "List" else "builtin" if f in NAMES_BUILTIN
                else "scope" if f in NAMES_SCOPE + ["t0", "t1", "x", "y"] else "plain")

    def dist(cs):
        d = dict(cases=len(cs), by_bindings={}, by_history={}, by_name_family={}, by_profile={}, controls=0)
        for c in cs:
            h = c["history"]
            for k, v in (("by_bindings", str(h["bindings"])), ("by_history", h["hist"]), ("by_name_family", fam(c)),
                         ("by_profile", h["profile"])):
                d[k][v] = d[k].get(v, 0) + 1
            d["controls"] += 1 if h["control"] else 0
        return d
    return dict(systematic=dist(sysc), random=dist(rnd),
                events="D = entry of defs=, I = inline def, C = call; | separates defs= from the caller's body",
                names=dict(plain=NAMES_PLAIN, type=NAMES_TYPE, builtin=NAMES_BUILTIN, scope=NAMES_SCOPE))


def history_profiles_for(f):
    if f in ("len", "sum", "any", "all"):
        return ["t", "tq", "b", "bb", "qc"]
    if f in ("ord", "chr", "int", "float", "abs", "print", "range"):
        return ["b", "q", "bb", "qc"]
    if f in ("max", "min"):
        return ["qq", "tq", "bb", "q", "qc"]
    if f in NAMES_TYPE:
        return ["qc", "bb", "q", "b"]
    return ["bb", "qq", "t", "b"]


def history_systematic(thorough=False):
    """the same for every seed: (i) a plain name x every history x every profile (x two body rotations); (ii) the
    control of every history (one name per binding: never refused); (iii) every special name (type, builtin,
    argument, local, caller) x the one-binding histories x its profiles, and x the multi-binding histories by
    rotation (thorough: all)"""
    out, seen = [], set()
    profs = history_profiles()

    def add(c):
        key = (c["caller"], json.dumps([x["src"] for x in c["callees"]]))
        if key not in seen and history_visible(c):
            seen.add(key)
            out.append(c)

    def bodies_of(pid, rot):
        b = profs[pid]["bodies"]
        return [b[(rot + i) % len(b)] for i in range(4)]

    for hi, hist in enumerate(HISTORIES):
        for pi, pid in enumerate(profs):
            for rot in ((0, 1, 3) if thorough else (0, 1) if pid in ("bb", "qq") else ((hi + pi) % 3,)):
                add(history_case(hist, NAMES_PLAIN[(hi + pi + rot) % len(NAMES_PLAIN)], pid, bodies_of(pid, rot)))
        add(history_case(hist, "h", "bb", bodies_of("bb", hi), tag="history-control", distinct_names=True))
        add(history_case(hist, "h", "tq", bodies_of("tq", hi), tag="history-control", distinct_names=True))
    i = 0
    for fam, names in (("type", NAMES_TYPE), ("builtin", NAMES_BUILTIN), ("scope", NAMES_SCOPE)):
        for f in names:
            pids = history_profiles_for(f)
            # (a name of the caller's scope: a defs= entry of that name is shadowed by the argument / local / the caller
            # itself in Python, so only the inline histories have a meaning)
            one = [h for h in HISTORIES_ONE if fam != "scope" or "D" not in h]
            many = [h for h in HISTORIES if fam != "scope" or "D" not in h]
            for pid in pids:
                for hist in one:
                    i += 1
                    add(history_case(hist, f, pid, bodies_of(pid, i), tag=f"history-{fam}"))
            hs = many if thorough else [many[(i + 5 * j) % len(many)] for j in range(4)]
            for j, hist in enumerate(hs):
                i += 1
                pid = pids[j % len(pids)]
                add(history_case(hist, f, pid, bodies_of(pid, i), tag=f"history-{fam}"))
    return out


def history_random(rng, count):
    """randomised variants: random event sequence (2..4 bindings, calls anywhere after the first binding, ends with a
    call), random name (plain / type / builtin / scope / random identifier), random profile, bodies from the pool or
    random boolean expressions"""
    from . import progs
    profs = history_profiles()
    out = []
    tries = 0
    while len(out) < count and tries < 30 * count:
        tries += 1
        nb = rng.choice([1, 2, 2, 2, 3, 3, 4])
        nd = rng.randint(0, min(nb, 3))
        evs = "D" * nd + "|" if nd else ""
        for k in range(nb - nd):
            evs += "C" * rng.choice([0, 0, 1, 1, 2]) if (k or nd) else ""
            evs += "I"
        evs += "C" * rng.choice([1, 1, 2])
        if evs.replace("|", "").count("C") > 4:
            continue
        r = rng.random()
        if r < 0.4:
            f = rng.choice(NAMES_PLAIN + ["g" + str(rng.randint(0, 99)), "hc", "_h", "fun"])
        elif r < 0.6:
            f = rng.choice(NAMES_TYPE + ["Qint3", "Qint8", "Qint16", "Qmatrix", "List"])
        elif r < 0.85:
            f = rng.choice(NAMES_BUILTIN)
        else:
            f = rng.choice(NAMES_SCOPE + ["t0", "t1", "x", "y"])
        pid = rng.choice(history_profiles_for(f) + list(profs))
        pool = list(profs[pid]["bodies"])
        rng.shuffle(pool)
        if pid == "bb" and rng.random() < 0.6:
            pool = [progs.gen_bool_expr(rng, ["x", "y"], 2) for _ in range(4)]
        elif pid == "t" and rng.random() < 0.5:
            pool = [progs.gen_bool_expr(rng, ["x[0]", "x[1]"], 2) for _ in range(4)]
        bodies = [pool[i % len(pool)] for i in range(4)]
        try:
            c = history_case(evs, f, pid, bodies, tag="history-rnd")
            ast.parse(c["caller"])
        except (SyntaxError, KeyError, IndexError):
            continue
        if not history_visible(c) or (rng.random() < 0.9 and not history_python_ok(c)):
            continue
        c["shape"] = "rnd-history"
        out.append(c)
    return out


NAME_POOL = ["x", "y", "z", "p", "q", "k", "m", "n", "u", "v", "w", "i", "j", "s", "t", "l", "o", "r"]


def random_cases(rng, count):
    """random callee (bool program with random argument names, possibly names of the form
    <callee>_<other arg>) and random caller shape; random library callee with random names"""
    out = []
    from . import progs
    k = 0
    while len(out) < count:
        k += 1
        r = rng.random()
        if r < 0.45:
            # random boolean callee with intermediate statements
            n = rng.randint(2, 4)
            fname = rng.choice(["ff", "gg", "hq", "kk", "fx", "rr"]) + str(rng.randint(0, 9))
            names = rng.sample(NAME_POOL, n)
            if rng.random() < 0.5:
                # an argument called <callee>_<another argument>
                i, j = rng.sample(range(n), 2)
                names[i] = f"{fname}_{names[j]}"
            body = []
            avail = list(names)
            for s in range(rng.choice([0, 0, 1, 2])):
                body.append(f"w{s} = {progs.gen_bool_expr(rng, avail, 2)}")
                avail.append(f"w{s}")
            nret = rng.choice([1, 1, 2])
            if nret == 1:
                body.append(f"return {progs.gen_bool_expr(rng, avail, 2)}")
                ret = B
            else:
                body.append(f"return ({progs.gen_bool_expr(rng, avail, 2)}, {progs.gen_bool_expr(rng, avail, 2)})")
                ret = T(B, B)
            cal = callee(fname, [(a, B) for a in names], ret, body)
        else:
            nm = rng.sample(NAME_POOL, 3)
            lib = library(nm[0], nm[1], nm[2], suffix=str(rng.randint(0, 9)))
            cal = rng.choice(lib)
            if rng.random() < 0.3 and len(cal["args"]) >= 2:
                # rename second formal to <callee>_<first formal>
                a0 = cal["args"][0][0]
                a1 = cal["args"][1][0]
                new = f"{cal['name']}_{a0}"
                cal = json.loads(json.dumps(cal))
                cal["src"] = cal["src"].replace(f"{a1}:", f"{new}:").replace(f" {a1}\n", f" {new}\n") \
                    .replace(f" {a1} ", f" {new} ").replace(f"{a1}[", f"{new}[").replace(f"({a1} ", f"({new} ") \
                    .replace(f" {a1})", f" {new})").replace(f"({a1},", f"({new},").replace(f", {a1})", f", {new})")
                cal["args"][1][0] = new
                try:
                    ast.parse(cal["src"])
                except SyntaxError:
                    continue
        cs = shapes_for(cal)
        cs = [c for c in cs if sum(tbits(t) for _, t in c["params"]) <= 8]
        if not cs:
            continue
        c = rng.choice(cs)
        # random permutation / renaming of the caller's parameter names (incl. callee-prefixed ones)
        if rng.random() < 0.4 and c["kind"] == "defs" and not c["shape"].startswith("prefix"):
            c = rename_params(rng, c, cal)
        c["shape"] = "rnd-" + c["shape"]
        out.append(c)
    return out


def rename_params(rng, c, cal):
    """rename the caller's parameters to names of the callee's prefixed formals (random assignment)"""
    pre = [f"{cal['name']}_{a}" for a, _ in cal["args"]]
    rng.shuffle(pre)
    m = {}
    for (p, _), n in zip(c["params"], pre):
        m[p] = n

    class Rn(ast.NodeTransformer):
        def visit_Name(self, node):
            if node.id in m:
                node.id = m[node.id]
            return node

        def visit_arg(self, node):
            if node.arg in m:
                node.arg = m[node.arg]
            return node

    tree = Rn().visit(ast.parse(c["caller"]))
    c = dict(c)
    c["caller"] = ast.unparse(tree) + "\n"
    c["params"] = [[m.get(p, p), t] for p, t in c["params"]]
    return c


# --------------------------------------------------------------------------- instrumentation


class Log:
    def __init__(self):
        self.records = []


def lf_json(lf):
    name, args, ret, exps = lf
    return dict(name=name, args=[[a.name, list(a.bitvec)] for a in args],
                ret=[ret.name, list(ret.bitvec)],
                exps=[[s.name, bexp.to_json(e)] for s, e in exps])


def flat(v):
    if isinstance(v, list):
        out = []
        for x in v:
            out += flat(x)
        return out
    return [v]


def actual_json(v):
    if isinstance(v, list):
        return dict(list=True, nested=any(isinstance(x, list) for x in v), bits=[bexp.to_json(x) for x in flat(v)])
    return dict(list=False, nested=False, bits=[bexp.to_json(v)])


class Instrument:
    """log every Env.bind_function and every Known-function call of translate_expression"""

    def __init__(self, log):
        self.log = log

    def __enter__(self):
        from qlasskit import ast2logic
        from qlasskit.ast2logic import env as envmod, t_expression, t_statement
        self.mods = [ast2logic, t_expression, t_statement]
        self.envmod = envmod
        self.orig_te = t_expression.translate_expression
        self.orig_bf = envmod.Env.bind_function
        log = self.log
        orig_te = self.orig_te
        orig_bf = self.orig_bf

        def bind_function(env_self, deff):
            rec = dict(op="bind")
            try:
                rec["types"] = [t[0] for t in env_self.types]
                rec["defs"] = [lf_json(d) for d in env_self.defs]
                rec["fun"] = lf_json(deff)
                rec["orders"] = [[x.name for x in e.free_symbols] for _, e in deff[3]]
            except Exception as e:  # not modelled (e.g. quantum hybrid values)
                rec = None
            try:
                r = orig_bf(env_self, deff)
            except Exception as e:
                # the definition is refused (a name of a type / a reserved name): the model must refuse it too
                if rec is not None:
                    rec["error"] = type(e).__name__
                    log.records.append(rec)
                raise
            if rec is not None:
                try:
                    rec["after"] = [lf_json(d) for d in env_self.defs]
                    log.records.append(rec)
                except Exception:
                    pass
            return r

        def translate_expression(expr, env):
            if (isinstance(expr, ast.Call) and hasattr(expr.func, "id")
                    and not env.know_type(expr.func.id) and expr.func.id not in ("int", "float")
                    and env.know_function(expr.func.id)):
                rec = dict(op="call", name=expr.func.id, src=ast.unparse(expr))
                n0 = len(log.records)
                try:
                    rec["defs"] = [lf_json(d) for d in env.defs]
                    acts = [orig_te(e, env) for e in expr.args]
                    del log.records[n0:]  # the arguments are translated again by the real call below
                    rec["actuals"] = [actual_json(a[1]) for a in acts]
                except Exception:
                    rec = None
                    del log.records[n0:]
                try:
                    r = orig_te(expr, env)
                except Exception as e:
                    if rec is not None:
                        rec["error"] = type(e).__name__
                        log.records.append(rec)
                    raise
                if rec is not None:
                    v = r[1]
                    rec["ok"] = [bexp.to_json(x) for x in (v if isinstance(v, list) else [v])]
                    log.records.append(rec)
                return r
            if (isinstance(expr, ast.Call) and hasattr(expr.func, "id")
                    and not env.know_type(expr.func.id) and expr.func.id not in ("int", "float")
                    and any(d[0] == expr.func.id for d in env.defs)):
                # the name is bound (several times) and the code does not resolve it: the model must say the same
                try:
                    log.records.append(dict(op="call", name=expr.func.id, src=ast.unparse(expr), actuals=[],
                                            defs=[lf_json(d) for d in env.defs], unresolved=True))
                except Exception:
                    pass
            return orig_te(expr, env)

        envmod.Env.bind_function = bind_function
        for m in self.mods:
            m.translate_expression = translate_expression
        return self

    def __exit__(self, *a):
        self.envmod.Env.bind_function = self.orig_bf
        for m in self.mods:
            m.translate_expression = self.orig_te
        return False


# --------------------------------------------------------------------------- running a case on the real code


def fingerprint(qf):
    from sympy import srepr
    return json.dumps([qf.name, [[a.name, str(a.ttype), list(a.bitvec)] for a in qf.args],
                       [qf.returns.name, str(qf.returns.ttype), list(qf.returns.bitvec)],
                       [[s.name, srepr(e)] for s, e in qf.expressions]])


def py_namespace():
    from typing import Tuple
    import qlasskit
    ns = {"Tuple": Tuple, "Qint": qlasskit.Qint, "_qv_wrap": lambda t: (lambda fn: wrapped(fn, t))}
    for n in (2, 3, 4, 5, 6, 7, 8):
        ns[f"Qint{n}"] = getattr(qlasskit, f"Qint{n}")
    return ns


def twrap(d, v):
    """the value as the declared type holds it (integers wrap to the width)"""
    if d == B:
        return bool(v)
    if is_q(d):
        return int(v) % (2 ** d[1])
    return tuple(twrap(x, y) for x, y in zip(d[1], v))


def wrapped(fn, ret):
    def w(*a):
        return twrap(ret, fn(*a))
    return w


def ann_type(node):
    """the type an annotation denotes (bool, Qint2 / Qint[2], Tuple[...]) or None"""
    if isinstance(node, ast.Name):
        if node.id == "bool":
            return B
        if node.id.startswith("Qint") and node.id[4:].isdigit():
            return ("Q", int(node.id[4:]))
        return None
    if isinstance(node, ast.Subscript) and isinstance(node.value, ast.Name):
        sl = node.slice
        if node.value.id == "Qint" and isinstance(sl, ast.Constant) and isinstance(sl.value, int):
            return ("Q", sl.value)
        if node.value.id == "Tuple":
            elts = sl.elts if isinstance(sl, ast.Tuple) else [sl]
            ts = [ann_type(e) for e in elts]
            return None if any(t is None for t in ts) else ("T", ts)
    return None


def oracle_src(src):
    """the source the Python oracle executes: every function defined INSIDE another one gets a decorator that
    wraps its result to the declared return type (a Qint[2] callee returns a 2-bit value also when its caller
    compares it), as `wrapped` does for the functions passed in defs="""
    tree = ast.parse(src)
    changed = False
    for top in tree.body:
        for node in ast.walk(top):
            if isinstance(node, ast.FunctionDef) and node is not top and node.returns is not None:
                t = ann_type(node.returns)
                if t is not None:
                    node.decorator_list.append(ast.parse(f"_qv_wrap({t!r})", mode="eval").body)
                    changed = True
    if not changed:
        return src
    return ast.unparse(ast.fix_missing_locations(tree)) + "\n"


def oexec(src, ns):
    """run a source for the Python oracle; annotations are not evaluated (a definition of the case may be called
    like a type they mention: `def Qint2(...)`, `def bool(...)`)"""
    import __future__
    exec(compile(oracle_src(src), "<oracle>", "exec", flags=__future__.annotations.compiler_flag, dont_inherit=True), ns)


def table_of_python(fn, params, ret):
    rows = []
    for vals in itertools.product(*[tvalues(t) for _, t in params]):
        out = fn(*vals)
        bits = []
        for (_, t), v in zip(params, vals):
            bits += tenc(t, v)
        rows.append((bits, tenc(ret, out)))
    return rows


def bitstr(bits):
    return "".join("1" if b else "0" for b in bits)


def eval_qf(qf_args_bits, exps_json, ret_bits, bits):
    env = dict(zip(qf_args_bits, bits))
    for s, e in exps_json:
        env[s] = bexp.eval_json(e, env)
    return [env[r] for r in ret_bits]


def dangling(arg_bits, exps_json):
    known = set(arg_bits)
    bad = []
    for s, e in exps_json:
        for n in bexp.syms_json(e):
            if n not in known and n not in bad:
                bad.append(n)
        known.add(s)
    return bad


def judge_qf(qf, fn, params, ret):
    """None when the compiled function equals the Python meaning on all inputs"""
    arg_bits = [b for a in qf.args for b in a.bitvec]
    exps = [[s.name, bexp.to_json(e)] for s, e in qf.expressions]
    bad = dangling(arg_bits, exps)
    if bad:
        return dict(what="free symbols that are not the caller's argument bits", symbols=bad,
                    expressions=[[s, str(bexp.from_json(e))] for s, e in exps])
    missing = [r for r in qf.returns.bitvec if r not in [s for s, _ in exps] and r not in arg_bits]
    if missing or len(qf.returns.bitvec) != tbits(ret):
        return dict(what="the return bits are not defined by the expressions", missing=missing,
                    returns=list(qf.returns.bitvec),
                    expressions=[[s, str(bexp.from_json(e))] for s, e in exps])
    if len(arg_bits) != sum(tbits(t) for _, t in params):
        return dict(what="argument bits differ from the declared shape", bits=arg_bits)
    rows = table_of_python(fn, params, ret)
    for bits, want in rows:
        got = eval_qf(arg_bits, exps, list(qf.returns.bitvec), bits)
        if got != want:
            return dict(what="truth table differs from the Python meaning",
                        input=bitstr(bits), code=bitstr(got), expected=bitstr(want),
                        expressions=[[s, str(bexp.from_json(e))] for s, e in exps],
                        code_table={bitstr(b): bitstr(eval_qf(arg_bits, exps, list(qf.returns.bitvec), b))
                                    for b, _ in rows})
    return None


def run_case(case):
    """-> dict(status in ok|rejected|callee-bad|fail, fail=..., records=[...])"""
    from qlasskit import qlassf
    log = Log()
    out = dict(status="ok", records=log.records, fail=None, error=None)
    ns = py_namespace()
    qfs = {}
    qfl = []  # the callee objects in the order of defs= (the same name may occur several times)
    fps = []
    named = bool(case.get("hostile") or case.get("history"))
    try:
        for c in case["callees"]:
            oexec(c["src"], ns)
            ns[c["name"]] = wrapped(ns[c["name"]], c["ret"])
    except Exception as e:
        out.update(status="bad-case", error=f"{type(e).__name__}: {e}")
        return out
    with Instrument(log):
        # callees
        for c in case["callees"]:
            try:
                qf = qlassf(c["src"], defs=[qfs[d] for d in c["deps"]], to_compile=False)
            except Exception as e:
                out.update(status="callee-rejected", error=f"{type(e).__name__}: {e}")
                return out
            # the Python meaning of this very definition (a later entry of defs= may carry the same name)
            cns = py_namespace()
            try:
                for d in case["callees"]:
                    if d is c:
                        break
                    oexec(d["src"], cns)
                    cns[d["name"]] = wrapped(cns[d["name"]], d["ret"])
                oexec(c["src"], cns)
                cfn = wrapped(cns[c["name"]], c["ret"])
            except Exception as e:
                out.update(status="bad-case", error=f"{type(e).__name__}: {e}")
                return out
            qfs[c["name"]] = qf
            qfl.append(qf)
            j = judge_qf(qf, cfn, c["args"], c["ret"])
            if j is not None and not c["deps"] and not named:
                out.update(status="callee-bad", error=j["what"])
                return out
            if j is not None:
                # (the names used inside a callee do not matter: a callee of the internal-looking-names family that
                # is compiled to another function on its own is a failing input here, not a skipped case)
                out.update(status="fail", fail=dict(j, stage=f"callee {c['name']} compiled on its own (uses {c['deps']})"),
                           failed=dict(name=c["name"], src=c["src"], params=c["args"], ret=c["ret"], deps=c["deps"],
                                       wrap=True))
                return out
            fps.append(fingerprint(qf))
        n_callee_records = len(log.records)
        if case["kind"] == "oraclize":
            from qlasskit.algorithms import oraclize
            from qlasskit.algorithms.qalgorithm import ConstantOracleException
            c = case["callees"][0]
            qf = qfs[c["name"]]
            f = ns[c["name"]]
            el = case["element"]
            at = c["args"][0][1]
            want_const = len({bool(f(v) == el) for v in tvalues(at)}) == 1
            out["oraclize"] = dict(fun=lf_json(qf.to_logicfun()), name=case["oname"])
            try:
                orc = oraclize(qf, el, name=case["oname"])
            except ConstantOracleException:
                out.update(status="rejected", error="ConstantOracleException")
                if not want_const:
                    out.update(status="fail", fail=dict(what="ConstantOracleException for a non-constant oracle"))
                orc = None
            except Exception as e:
                out.update(status="rejected", error=f"{type(e).__name__}: {e}")
                orc = None
            out["oraclize"]["after"] = lf_json(qf.to_logicfun())
            if orc is not None:
                j = judge_qf(orc, lambda v: f(v) == el, [["v", at]], B)
                if j is not None:
                    out.update(status="fail", fail=dict(j, stage="oracle"))
                elif orc.name != case["oname"]:
                    out.update(status="fail", fail=dict(what="oracle has the wrong name", code=orc.name))
        else:
            py_ok = True
            try:
                oexec(case["caller"], ns)
                want_fn = ns["caller"]
                # a caller Python itself rejects on some input has no meaning to compare with
                table_of_python(want_fn, case["params"], case["ret"])
            except Exception as e:
                py_ok = False
                out.update(status="python-rejects", error=f"python: {type(e).__name__}: {e}")
            try:
                qc = qlassf(case["caller"], defs=list(qfl), to_compile=False)
            except Exception as e:
                if py_ok:
                    out.update(status="rejected", error=f"{type(e).__name__}: {str(e)[:120]}")
                qc = None
            if qc is not None and py_ok:
                j = judge_qf(qc, want_fn, case["params"], case["ret"])
                if j is not None:
                    out.update(status="fail", fail=dict(j, stage="caller"),
                               failed=dict(name="caller", src=case["caller"], params=case["params"], ret=case["ret"],
                                           deps=[c["name"] for c in case["callees"]], wrap=False))
        # the callee objects are unchanged
        for c, qf, fp in zip(case["callees"], qfl, fps):
            if fingerprint(qf) != fp and out["status"] != "fail":
                out.update(status="fail", fail=dict(what="the callee object changed", callee=c["name"],
                                                   before=fp[:300], after=fingerprint(qf)[:300]))
    out["n_callee_records"] = n_callee_records
    return out


# --------------------------------------------------------------------------- attribution: captured internal names
#
# Three open findings are about user names that look like names the library generates.  A failing case is one of
# them only if a quirk-oracle - the Python source rewritten the way the library rewrites it, executed by CPython,
# then (for the third) the by-name merge of the optimizer applied to the definition list - predicts the code's
# truth table bit for bit on every input, and switching that one quirk off changes the prediction.

NAME_QUIRKS = {
    "C07-iftarg-name-capture": "iftarg",
    "C07-temptup-name-capture": "temptup",
    "C07-ret-prefix-merge": "retmerge",
}


class QuirkRewriter:
    """the part of qlasskit's ast2ast that introduces names: `a, b = e` becomes `_temptup = e; a = _temptup[0]; ...`
    (ReplaceMultiTargetAssign), `if c: t = v` becomes `_iftarg<k> = c; t = v if _iftarg<k> else t` with k = 2, 3, ...
    (hex) in the order visit_If takes them (body and orelse first), and an else-branch assignment to a name starting
    with _iftarg is made unconditionally (ASTRewriter.visit_If).  In CPython's semantics the rewritten source means
    the same as the original one unless the function uses one of these names itself."""

    def __init__(self, flags):
        self.flags = set(flags)
        self.k = 1

    def uniq(self):
        self.k += 1
        return f"{self.k:x}"

    def block(self, stmts):
        out = []
        for st in stmts:
            out += self.stmt(st)
        return out

    def stmt(self, st):
        if isinstance(st, ast.FunctionDef):
            st.body = self.block(st.body)
            return [st]
        if isinstance(st, ast.Assign) and len(st.targets) == 1 and isinstance(st.targets[0], (ast.Tuple, ast.List)) \
                and "temptup" in self.flags:
            elts = st.targets[0].elts
            if not all(isinstance(e, ast.Name) for e in elts):
                raise ValueError("not modelled")
            if isinstance(st.value, ast.Name):
                src = st.value.id
                pre = []
            else:
                src = "_temptup"
                pre = [ast.Assign(targets=[ast.Name(id="_temptup", ctx=ast.Store())], value=st.value)]
            return pre + [ast.Assign(targets=[ast.Name(id=e.id, ctx=ast.Store())],
                                     value=ast.Subscript(value=ast.Name(id=src, ctx=ast.Load()),
                                                         slice=ast.Constant(value=i), ctx=ast.Load()))
                          for i, e in enumerate(elts)]
        if isinstance(st, ast.If) and "iftarg" in self.flags:
            body = self.block(st.body)
            orelse = self.block(st.orelse)
            test = "_iftarg" + self.uniq()
            out = [ast.Assign(targets=[ast.Name(id=test, ctx=ast.Store())], value=st.test)]
            for branch, positive in ((body, True), (orelse, False)):
                for b in branch:
                    if not (isinstance(b, ast.Assign) and len(b.targets) == 1 and isinstance(b.targets[0], ast.Name)):
                        raise ValueError("not modelled")
                    t = b.targets[0].id
                    if not positive and t.startswith("_iftarg"):
                        out.append(b)
                        continue
                    keep = ast.Name(id=t, ctx=ast.Load())
                    out.append(ast.Assign(targets=[ast.Name(id=t, ctx=ast.Store())], value=ast.IfExp(
                        test=ast.Name(id=test, ctx=ast.Load()),
                        body=b.value if positive else keep, orelse=keep if positive else b.value)))
            return out
        if isinstance(st, ast.If):
            st.body = self.block(st.body)
            st.orelse = self.block(st.orelse)
            return [st]
        if isinstance(st, (ast.For, ast.While, ast.With, ast.Try)) and self.flags:
            raise ValueError("not modelled")
        return [st]


def quirk_source(src, flags):
    tree = ast.parse(src)
    # ReplaceMultiTargetAssign runs over the whole tree before ASTRewriter does
    tree.body = QuirkRewriter(set(flags) & {"temptup"}).block(tree.body)
    tree.body = QuirkRewriter(set(flags) & {"iftarg"}).block(tree.body)
    return ast.unparse(ast.fix_missing_locations(tree)) + "\n"


def quirk_python_table(case, failed, flags):
    """{input bits: output bits} of the failing function under the source-level quirks `flags`; None = no prediction"""
    try:
        ns = py_namespace()
        for c in case["callees"]:
            if c["name"] == failed["name"]:
                break
            exec(oracle_src(c["src"]), ns)
            ns[c["name"]] = wrapped(ns[c["name"]], c["ret"])
        exec(oracle_src(quirk_source(failed["src"], flags)), ns)
        fn = ns[failed["name"]]
        if failed["wrap"]:
            fn = wrapped(fn, failed["ret"])
        return {bitstr(b): bitstr(o) for b, o in table_of_python(fn, failed["params"], failed["ret"])}
    except Exception:
        return None


def subst_json(j, m):
    if j[0] == "sym":
        return m.get(j[1], j)
    return [j[0]] + [subst_json(x, m) if isinstance(x, list) else x for x in j[1:]]


def merge_by_prefix(exps):
    """boolopt.merge_expressions: every definition is substituted into the later ones, except those whose NAME starts
    with _ret, which are kept (also when the name is a variable of the user's that is bound again later)"""
    emap, kept = {}, []
    for s, e in exps:
        e = subst_json(e, emap)
        if s[0:4] != "_ret":
            emap[s] = e
        else:
            kept.append([s, e])
    return kept


def unoptimised(case, failed):
    """the failing function's definition list before the optimizer ran (the code's own translator, no optimizer)"""
    from qlasskit import qlassf
    from qlasskit.boolopt.bool_optimizer import BoolOptimizerProfile
    qfs = {}
    for c in case["callees"]:
        if c["name"] == failed["name"]:
            break
        qfs[c["name"]] = qlassf(c["src"], defs=[qfs[d] for d in c["deps"]], to_compile=False)
    qf = qlassf(failed["src"], defs=[qfs[d] for d in failed["deps"]], to_compile=False,
                bool_optimizer=BoolOptimizerProfile([]))
    return ([b for a in qf.args for b in a.bitvec], list(qf.returns.bitvec),
            [[s.name, bexp.to_json(e)] for s, e in qf.expressions])


def table_of_defs(arg_bits, ret_bits, exps):
    return {bitstr(bits): bitstr(eval_qf(arg_bits, exps, ret_bits, list(bits)))
            for bits in itertools.product([False, True], repeat=len(arg_bits))}


def attribute_names(ctx, case, oc):
    """the ids of the open, active name-capture findings that explain the failing case exactly, or None"""
    failed = oc.get("failed")
    code = (oc.get("fail") or {}).get("code_table")
    if not failed or not code:
        return None
    active = {NAME_QUIRKS[f["id"]]: f["id"] for f in ctx.findings
              if f["id"] in NAME_QUIRKS and f.get("status", "open") == "open" and f.get("_active")}
    if not active:
        return None
    src_flags = sorted(set(active) & {"iftarg", "temptup"})
    full = quirk_python_table(case, failed, src_flags)
    if full is None:
        return None
    implicated = []
    for fl in src_flags:
        # trigger: the function uses the very name the rewriter generates, and the capture changes its meaning
        if quirk_python_table(case, failed, [x for x in src_flags if x != fl]) != full:
            implicated.append(fl)
    predicted = full
    if "retmerge" in active:
        try:
            arg_bits, ret_bits, exps = unoptimised(case, failed)
        except Exception:
            return None
        # trigger: a definition named _ret... that is not one of the return bits
        if any(s[0:4] == "_ret" and s not in ret_bits for s, _ in exps) and not dangling(arg_bits, exps):
            if table_of_defs(arg_bits, ret_bits, exps) != full:
                return None  # the translator itself does something that is not modelled here
            merged = merge_by_prefix(exps)
            if dangling(arg_bits, merged):
                return None
            predicted = table_of_defs(arg_bits, ret_bits, merged)
            if predicted != full:
                implicated.append("retmerge")
    if not implicated or predicted != code:
        return None
    return [active[fl] for fl in implicated]


# --------------------------------------------------------------------------- model side


def sem_equal(a_json, b_json):
    names = sorted(set(bexp.syms_json(a_json)) | set(bexp.syms_json(b_json)))
    if len(names) > 14:
        return None
    return bexp.truth_table(names, [a_json]) == bexp.truth_table(names, [b_json])


def exp_equal(model_json, code_json, stats):
    try:
        if bexp.from_json(model_json) == bexp.from_json(code_json):
            return True
    except Exception:
        pass
    r = sem_equal(model_json, code_json)
    if r:
        stats["semantic-only"] = stats.get("semantic-only", 0) + 1
    return bool(r)


def fun_equal(m, c, stats):
    if m["name"] != c["name"] or m["args"] != c["args"] or m["ret"] != c["ret"]:
        return False
    if [e[0] for e in m["exps"]] != [e[0] for e in c["exps"]]:
        return False
    return all(exp_equal(x[1], y[1], stats) for x, y in zip(m["exps"], c["exps"]))


def requests_for(rec, quirks):
    if rec["op"] == "bind":
        return dict(op="c07.bind", quirks=quirks, types=rec["types"], defs=rec["defs"], fun=rec["fun"],
                    orders=rec["orders"])
    if rec["op"] == "call":
        return dict(op="c07.call", quirks=quirks, defs=rec["defs"], name=rec["name"], actuals=rec["actuals"])
    return dict(op="c07.oraclize", quirks=quirks, fun=rec["fun"], name=rec["name"])


def reply_matches(rec, rep, stats):
    """does the model's reply equal what the code did"""
    if "driver_error" in rep:
        return False
    if rec["op"] == "bind":
        if "error" in rec or "error" in rep:
            return rep.get("error") == rec.get("error")
        m, c = rep["defs"], rec["after"]
        return len(m) == len(c) and all(fun_equal(x, y, stats) for x, y in zip(m, c))
    if rec["op"] == "call":
        if rec.get("unresolved"):
            return rep.get("known") is False
        if rep.get("known") is False:
            return False
        if "error" in rec:
            return rep.get("error") == rec["error"]
        if "ok" not in rep:
            return False
        return len(rep["ok"]) == len(rec["ok"]) and all(exp_equal(x, y, stats) for x, y in zip(rep["ok"], rec["ok"]))
    return rep["after"] == rec["after"]


def replies_same(op, a, b):
    """are two model replies semantically the same (for the counterfactual trigger)"""
    stats = {}
    if "driver_error" in a or "driver_error" in b:
        return False
    if op == "bind":
        if "error" in a or "error" in b:
            return a.get("error") == b.get("error")
        return len(a["defs"]) == len(b["defs"]) and all(fun_equal(x, y, stats) for x, y in zip(a["defs"], b["defs"]))
    if op == "call":
        if ("ok" in a) != ("ok" in b):
            return False
        if "ok" not in a:
            return a == b
        return len(a["ok"]) == len(b["ok"]) and all(exp_equal(x, y, stats) for x, y in zip(a["ok"], b["ok"]))
    return a["after"] == b["after"]


def active_flags(ctx):
    return sorted({f["quirk"] for f in ctx.findings if f.get("status", "open") == "open" and f.get("_active")
                   and f.get("quirk")})


def finding_of_flag(ctx, flag):
    for f in ctx.findings:
        if f.get("quirk") == flag and f.get("status", "open") == "open" and f.get("_active"):
            return f["id"]
    return None


def case_records(case, outcome):
    recs = list(outcome["records"])
    if "oraclize" in outcome and "after" in outcome["oraclize"]:
        o = outcome["oraclize"]
        recs.append(dict(op="oraclize", fun=o["fun"], name=o["name"], after=o["after"]))
    return recs


def check_cases(ctx, res, cases, bucket):
    active = active_flags(ctx)
    outcomes = []
    reqs = []
    index = []  # (case idx, rec idx, variant)
    for ci, case in enumerate(cases):
        oc = run_case(case)
        outcomes.append(oc)
        recs = case_records(case, oc)
        oc["recs"] = recs
        for ri, rec in enumerate(recs):
            reqs.append(requests_for(rec, active))
            index.append((ci, ri, None))
            for fl in active:
                reqs.append(requests_for(rec, [x for x in active if x != fl]))
                index.append((ci, ri, fl))
    replies = ctx.model(reqs) if reqs else []
    per = {}
    if replies is not None:
        for (ci, ri, fl), rep in zip(index, replies):
            per.setdefault((ci, ri), {})[fl] = rep
    stats = res.extra.setdefault("correspondence", {})
    for ci, (case, oc) in enumerate(zip(cases, outcomes)):
        small = {k: case[k] for k in case if k != "callees"}
        small["callee_srcs"] = [c["src"] for c in case["callees"]]
        nontrivial = oc["status"] in ("ok", "fail") and (len(oc["recs"]) > 0)
        res.count(small, nontrivial=nontrivial, bucket=f"{bucket}:{case['shape'].replace('rnd-', '')}:{oc['status']}")
        all_match = True
        implicated = set()
        if replies is not None:
            for ri, rec in enumerate(oc["recs"]):
                reps = per.get((ci, ri), {})
                base = reps.get(None)
                stats["operations"] = stats.get("operations", 0) + 1
                if base is None or not reply_matches(rec, base, stats):
                    all_match = False
                    res.disagree(dict(case=small, operation={k: rec[k] for k in rec if k != "defs"}),
                                 f"model and code differ on a logged {rec['op']}",
                                 code=rec.get("after") or rec.get("ok") or rec.get("error"), model=base)
                for fl in active:
                    if fl in reps and base is not None and not replies_same(rec["op"], base, reps[fl]):
                        implicated.add(fl)
        else:
            all_match = False
        if oc["status"] == "fail":
            fids = [finding_of_flag(ctx, fl) for fl in sorted(implicated)]
            named = attribute_names(ctx, case, oc) if (all_match and not implicated) else None
            if named:
                for fid in named:
                    res.known(fid)
            elif implicated and all(fids) and all_match:
                for fid in fids:
                    res.known(fid)
            else:
                res.violation(dict(case, status=oc["status"]), oc["fail"]["what"], code=oc["fail"],
                              expected="the caller's Python meaning on all inputs; callee unchanged",
                              implicated=sorted(implicated), model_reproduces=all_match)
    return outcomes


# --------------------------------------------------------------------------- direct API cases (synthetic LogicFuns)


def synthetic_cases(rng, count):
    """bind_function / call site on synthetic definition lists (reassignment, shared names,
    type-named functions, duplicate definitions), driven through the real Env and translate_expression"""
    from . import progs
    out = []
    for k in range(count):
        n = rng.randint(1, 3)
        fname = rng.choice(["f", "g", "Qint2", "ab"])
        argn = rng.sample(["x", "y", "z", f"{fname}_x", f"{fname}_y"], n)
        exps = []
        names = list(argn)
        for i in range(rng.choice([0, 1, 2, 3])):
            s = rng.choice([f"t{i}", f"t{i}", rng.choice(names)])
            exps.append([s, progs.gen_bexp(rng, names, rng.randint(1, 2))])
            if s not in names:
                names.append(s)
        nret = rng.choice([1, 2])
        rets = ["_ret"] if nret == 1 else ["_ret.0", "_ret.1"]
        for r in rets:
            exps.append([r, progs.gen_bexp(rng, names, rng.randint(1, 3))])
        caller_names = rng.sample(["a", "b", "c", f"{fname}_x", f"{fname}_y", "x", "y"], 3)
        acts = []
        for _ in argn:
            acts.append(progs.gen_bexp(rng, caller_names, rng.choice([0, 0, 1, 2])))
        out.append(dict(kind="synthetic", shape="synthetic", fname=fname, args=argn, exps=exps, rets=rets,
                        actuals=acts, twice=rng.random() < 0.1))
    return out


def py_of_json(j):
    t = j[0]
    if t == "sym":
        return j[1]
    if t == "not":
        return f"(not {py_of_json(j[1])})"
    op = {"and": " and ", "or": " or ", "xor": " ^ "}[t]
    return "(" + op.join(py_of_json(x) for x in j[1:]) + ")"


def run_synthetic(case):
    from sympy import Symbol
    from qlasskit.ast2logic import Env, translate_expression
    from qlasskit.ast2logic.typing import Arg
    log = Log()
    args = [Arg(a, bool, [a]) for a in case["args"]]
    nret = len(case["rets"])
    from typing import Tuple
    ret = Arg("_ret", bool if nret == 1 else Tuple[bool, bool], list(case["rets"]))
    lf = (case["fname"], args, ret, [(Symbol(s), bexp.from_json(e)) for s, e in case["exps"]])
    env = Env()
    names = sorted({n for a in case["actuals"] for n in bexp.syms_json(a)})
    for n in names:
        env.bind(Arg(n, bool, [n]))
    with Instrument(log):
        try:
            env.bind_function(copy.deepcopy(lf))
            if case.get("twice"):
                env.bind_function(copy.deepcopy(lf))
        except Exception as e:  # a library that refuses the definition (e.g. one called like a type)
            return dict(status="rejected-bind:" + type(e).__name__, records=log.records, recs=log.records)
        src = f"{case['fname']}(" + ", ".join(py_of_json(a) for a in case["actuals"]) + ")"
        expr = ast.parse(src, mode="eval").body
        from qlasskit import ast2logic
        try:
            ast2logic.translate_expression(expr, env)
            status = "ok"
        except Exception as e:
            status = "rejected:" + type(e).__name__
    return dict(status=status, records=log.records, recs=log.records)


def check_synthetic(ctx, res, cases):
    active = active_flags(ctx)
    reqs, index, outs = [], [], []
    for ci, case in enumerate(cases):
        oc = run_synthetic(case)
        outs.append(oc)
        for ri, rec in enumerate(oc["recs"]):
            reqs.append(requests_for(rec, active))
            index.append((ci, ri))
    replies = ctx.model(reqs) if reqs else []
    stats = res.extra.setdefault("correspondence", {})
    for ci, (case, oc) in enumerate(zip(cases, outs)):
        res.count(case, nontrivial=len(oc["recs"]) > 1, bucket=f"synthetic:{oc['status']}")
    if replies is None:
        return
    for (ci, ri), rep in zip(index, replies):
        rec = outs[ci]["recs"][ri]
        stats["operations"] = stats.get("operations", 0) + 1
        if not reply_matches(rec, rep, stats):
            res.disagree(dict(case=cases[ci], operation={k: rec[k] for k in rec if k != "defs"}),
                         f"model and code differ on a logged {rec['op']} (synthetic definition list)",
                         code=rec.get("after") or rec.get("ok") or rec.get("error"), model=rep)


# --------------------------------------------------------------------------- entry points


def systematic_cases():
    out = []
    for cal in library():
        out += shapes_for(cal)
    out += chain_cases()
    out += oraclize_cases()
    return [c for c in out if c["kind"] == "oraclize" or sum(tbits(t) for _, t in c["params"]) <= 10]


def run(ctx: Ctx) -> Result:
    res = Result("C07")
    res.rule = ("a case counts as non-trivial when both callee and caller compiled (or the property failed) and at "
                "least one bind_function / known-function call was logged and replayed through the model")
    t0 = time.time()
    sysc = systematic_cases()
    check_cases(ctx, res, sysc, "sys")
    ctx.log(f"[C07] systematic {len(sysc)} cases {time.time() - t0:.1f}s")
    t1 = time.time()
    hsys = hostile_systematic(ctx.thorough)
    for i in range(0, len(hsys), 100):
        check_cases(ctx, res, hsys[i:i + 100], "sys")
    ctx.log(f"[C07] systematic, internal-looking names: {len(hsys)} cases {time.time() - t1:.1f}s")
    t1 = time.time()
    hist = history_systematic(ctx.thorough)
    for i in range(0, len(hist), 100):
        check_cases(ctx, res, hist[i:i + 100], "sys")
    ctx.log(f"[C07] systematic, name histories: {len(hist)} cases {time.time() - t1:.1f}s")
    t1 = time.time()
    hrn = history_random(ctx.rng, 600 if ctx.thorough else 60)
    for i in range(0, len(hrn), 100):
        check_cases(ctx, res, hrn[i:i + 100], "rnd")
    ctx.log(f"[C07] random, name histories: {len(hrn)} cases {time.time() - t1:.1f}s")
    res.extra["name_histories"] = history_distribution(hist, hrn)
    t1 = time.time()
    hrnd = hostile_random(ctx.rng, 600 if ctx.thorough else 40)
    for i in range(0, len(hrnd), 100):
        check_cases(ctx, res, hrnd[i:i + 100], "rnd")
    ctx.log(f"[C07] random, internal-looking names: {len(hrnd)} cases {time.time() - t1:.1f}s")
    n_rand = 5000 if ctx.thorough else 150
    n_syn = 8000 if ctx.thorough else 300
    budget = 500 if ctx.thorough else 30
    done = 0
    t1 = time.time()
    while done < n_rand and time.time() - t1 < budget:
        batch = random_cases(ctx.rng, min(50, n_rand - done))
        check_cases(ctx, res, batch, "rnd")
        done += len(batch)
    ctx.log(f"[C07] random {done} cases {time.time() - t0:.1f}s")
    syn = synthetic_cases(ctx.rng, n_syn)
    check_synthetic(ctx, res, syn)
    ctx.log(f"[C07] synthetic {len(syn)} cases {time.time() - t0:.1f}s")
    res.notes.append("oracle = the Python sources executed on all inputs; expressions evaluated by harness/bexp.py")
    res.assumptions.append(
        "C07: sympy's re-canonicalisation inside subs preserves eval (checked per logged operation: structural "
        "equality after canonicalising the model's result by sympy's constructors, else truth tables)")
    res.assumptions.append(
        "C07: the theorems are about the call mechanism on definition lists (bind_function, call site, oraclize's "
        "treatment of the callee); the translation of the rest of the caller is C01's subject and is covered here "
        "only by the end-to-end truth tables")
    return res


def witness_fails(ctx: Ctx, f):
    case = f.get("witness", {}).get("case")
    if not case:
        return False
    oc = run_case(case)
    return oc["status"] == "fail"


def replay(ctx: Ctx, payload):
    first = payload.get("first") or {}
    case = first.get("case", {})
    if "kind" not in case:
        print("no failing input in this replay file (tie-broken record)")
        return 2
    for c in case.get("callees", []):
        print(c["src"])
    print(case.get("caller", f"oraclize(…, {case.get('element')!r}, name={case.get('oname')!r})"))
    oc = run_case(case)
    print("status:", oc["status"], oc.get("error") or "")
    if oc["fail"]:
        print(json.dumps(oc["fail"], indent=1, default=str))
    return 1 if oc["status"] == "fail" else 0
