import sys, json, time
sys.path.insert(0, "/root/work/c10")
from harness import c10, common
ctx = common.Ctx("C10", "quick", 0)
for f in ctx.findings: f["_active"]=True
ch = c10.Children()
res = common.Result("C10")
sysh = c10.systematic()
sel = [x for x in sysh if (sys.argv[1] in x[0])] if len(sys.argv)>1 else sysh
print(len(sel), "histories")
t=time.time()
c10.run_batch(ctx, ch, res, [o for _,o in sel], [l for l,_ in sel], c10.active_quirks(ctx), c10.findings_by_quirk(ctx))
print("time", time.time()-t, "jobs", ch.njobs, "known", res.known_hits)
seen=set()
for v in res.violations:
    k=v['what'][:60]
    if k in seen: continue
    seen.add(k); print("VIOL", json.dumps(v)[:700])
for v in res.disagreements[:8]:
    print("DIS", json.dumps(v, default=str)[:900])
ch.close()
