import sys, json, time
sys.path.insert(0, "/root/work/c10")
import sympy, qiskit
from harness import c10, common
from harness import c10_worker as W
import cProfile, pstats
ops = [c10.comp(0), c10.mk("grover", 0), c10.mk("grover", 0), c10.mk("dj", 0)]
t=time.time()
cProfile.run('W.run_job(dict(job="history", ops=ops, moddir="/tmp"))', '/tmp/c10prof')
print(time.time()-t)
pstats.Stats('/tmp/c10prof').sort_stats('cumtime').print_stats(18)
