import sys, json, time
sys.path.insert(0, "/root/work/c10")
from harness import c10, common
ch = c10.Children()
ops = [c10.comp(0), c10.mk("grover", 0), c10.mk("grover", 0), c10.mk("dj", 0)]
t=time.time()
r = ch.run([dict(job="history", ops=ops)])
print("1 job", time.time()-t)
t=time.time()
jobs=[dict(job="history", ops=ops+[c10.mk("dj",0)]*k) for k in range(1,33)]
r = ch.run(jobs)
print("32 jobs", time.time()-t)
import os
t=time.time()
pid=os.fork()
if pid==0: os._exit(0)
os.waitpid(pid,0); print("fork", time.time()-t)
from harness import c10_worker as W
t=time.time()
pid=os.fork()
if pid==0:
    W.run_job(dict(job="history", ops=ops, moddir=ch.moddir)); os._exit(0)
os.waitpid(pid,0); print("fork+job", time.time()-t)
ch.close()
