import sys
from qlasskit import qlassf, Qint, Qint2
from qlasskit.algorithms import Grover, DeutschJozsa, oraclize
import qlasskit.qlassfun as M
def fp(qf):
    c = qf.circuit()
    return (qf.name, c.num_qubits, len(c.gates), dict(c.qubit_map))
g = qlassf("def g(a: Qint[2]) -> bool:\n  return a == 2")
print(fp(g)); G = Grover(g); print(fp(g)); G2 = Grover(g); print(fp(g))
o = qlassf("def oracle(a: Qint[2]) -> Qint[2]:\n  return a + 1")
print(fp(o)); oo = oraclize(o, 2); print(fp(o), fp(oo))
print('g' in M.__dict__, 'oracle' in M.__dict__)
f = qlassf("def f(a: bool) -> bool:\n  return not a")
print(type(f.original_f))
for nm in ['types','defs','compiler','uncompute','fun_ast','to_compile','bool_optimizer']:
    q = qlassf(f"def {nm}(a: bool) -> bool:\n  return not a")
    print(nm, type(q.original_f))
h = qlassf("def h(a: Qint[2]) -> bool:\n  return g(a)", defs=[g])
print(h.original_f(2), h.original_f(1))
g2 = qlassf("def g(a: Qint[2]) -> bool:\n  return a == 1")
print(h.original_f(2), h.original_f(1))
try:
    c = qlassf("def copy(a: bool) -> bool:\n  return not a")
    h = qlassf("def h(a: bool) -> bool:\n  return copy(a)", defs=[c])
except Exception as e: print("copy:", type(e), e)
