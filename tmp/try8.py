import sys, json, time, os
sys.path.insert(0, "/root/work/c10")
import multiprocessing as mp
import sympy, qiskit
from harness import c10_worker as W
from harness import c10
ctx = mp.get_context("fork")
def f(x): return x
def g(x):
    t=time.time()
    import qlasskit
    return time.time()-t
def h(x):
    t=time.time()
    r=W.run_job(dict(job="history", ops=[c10.comp(0), c10.mk("grover", 0)], moddir="/tmp"))
    return time.time()-t
for fn in (f, g, h):
    t=time.time()
    with ctx.Pool(6) as p: r=p.map(fn, range(6), chunksize=1)
    print(fn.__name__, round(time.time()-t,2), [round(x,2) for x in r])
