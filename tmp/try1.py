import sys, json
sys.path.insert(0, "/root/work/c10")
from harness import c10, common
ctx = common.Ctx("C10", "quick", 0)
ch = c10.Children()
ops = [c10.comp(0), c10.mk("grover", 0), c10.mk("grover", 0), c10.mk("dj", 0)]
r = ch.run([dict(job="history", ops=ops)])[0]
print(json.dumps(r)[:3000])
ch.close()
