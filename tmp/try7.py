import sys, json, time
sys.path.insert(0, "/root/work/c10")
from harness import c10, common
import harness.c10 as C
orig_run = C.Children.run
def timed_run(self, jobs):
    t=time.time(); r=orig_run(self, jobs); print("  ch.run", len(jobs), round(time.time()-t,2)); return r
C.Children.run = timed_run
ctx = common.Ctx("C10", "quick", 0)
om = ctx.model
def tm(reqs):
    t=time.time(); r=common.run_driver(reqs); print("  model", len(reqs), round(time.time()-t,2)); return r
ctx.model = tm
for f in ctx.findings: f["_active"]=True
ch = c10.Children()
res = common.Result("C10")
sysh = c10.systematic()
sel = [x for x in sysh if (sys.argv[1] in x[0])]
t=time.time()
c10.run_batch(ctx, ch, res, [o for _,o in sel], [l for l,_ in sel], c10.active_quirks(ctx), c10.findings_by_quirk(ctx))
print("time", time.time()-t)
ch.close()
