import sys, json, time, os, gc
sys.path.insert(0, "/root/work/c10")
mode = sys.argv[1]
if mode in ("sympy","both","freeze"): import sympy
if mode in ("both","freeze"): import qiskit
from harness import c10_worker as W
from harness import c10
if mode=="freeze":
    gc.collect(); gc.freeze()
ops = [c10.comp(0), c10.mk("grover", 0), c10.mk("grover", 0), c10.mk("dj", 0)]
for rep in range(3):
    t=time.time()
    pid=os.fork()
    if pid==0:
        W.run_job(dict(job="history", ops=ops, moddir="/tmp")); os._exit(0)
    os.waitpid(pid,0); print(mode, "fork+job", round(time.time()-t,3))
