import sys, json, time, os, gc
sys.path.insert(0, "/root/work/c10")
import sympy, qiskit
from harness import c10_worker as W
from harness import c10
def timed(label, fn):
    t=time.time()
    pid=os.fork()
    if pid==0:
        t1=time.time(); fn(); 
        sys.stderr.write(f"   child {label} inner {time.time()-t1:.3f}\n"); os._exit(0)
    os.waitpid(pid,0); print(label, round(time.time()-t,3))
timed("noop", lambda: None)
timed("loop", lambda: sum(i*i for i in range(300000)))
def imp():
    import qlasskit
timed("import", imp)
def imp2():
    import qlasskit, qlasskit.algorithms, qlasskit.decompiler
    from qlasskit import qlassf
    g = qlassf("def g(a: Qint[2]) -> bool:\n  return a == 2")
timed("import+compile", imp2)
ops = [c10.comp(0), c10.mk("grover", 0), c10.mk("grover", 0), c10.mk("dj", 0)]
timed("job", lambda: W.run_job(dict(job="history", ops=ops, moddir="/tmp")))
